"""
E-PY: verification-condition generator for a subset of Python.

The AST of the *real* function is re-read from the working tree on every run and executed
symbolically, path by path (re-execution with a decision prefix), against a sidecar contract.
Loops are cut at their invariants, calls to functions under contract are replaced by the callee's
contract, library calls go through *assumed contracts* ("intrinsics") which are listed in the
evidence.  Every proof obligation becomes one SMT-LIB query (vk.smt.Obligation).

Anything outside the subset raises OutOfSubset: the function is then *undecided*, never violated.
"""
from __future__ import annotations

import ast
import copy
import dataclasses
import pathlib
import textwrap
import typing

from . import smt
from .smt import And, Eq, Implies, Ite, Not, Or, app, int_lit, str_lit


import re as _re

_SYM = _re.compile(r"\|[^|]+\|")


class OutOfSubset(Exception):
    pass


def _int_lit(t: str) -> typing.Optional[int]:
    t = t.strip()
    if t.isdigit():
        return int(t)
    m = _re.fullmatch(r"\(\s*-\s*(\d+)\s*\)", t)
    return -int(m.group(1)) if m else None


def _lit_term(v: int) -> str:
    return str(v) if v >= 0 else f"(- {-v})"


_LIN = _re.compile(r"\(\+ \(\* (\d+) (\|[^|]+\||[A-Za-z_][\w.!]*)\) (\d+)\)")


def _fold_int(op: ast.operator, a: str, b: str) -> typing.Optional[str]:
    """closed integer arithmetic is evaluated (exact: Python ints), and terms of the shape (+ (* c X) k) -- a cursor split
    into a symbolic multiple and a literal remainder -- stay in that shape under +/- of literals and are divided exactly by
    literal divisors of c.  Anything else: None (the generic SMT term is built by the caller)."""
    x, y = _int_lit(a), _int_lit(b)
    if x is not None and y is not None:
        try:
            if isinstance(op, ast.Add):
                return _lit_term(x + y)
            if isinstance(op, ast.Sub):
                return _lit_term(x - y)
            if isinstance(op, ast.Mult):
                return _lit_term(x * y)
            if isinstance(op, ast.FloorDiv) and y != 0:
                return _lit_term(x // y)
            if isinstance(op, ast.Mod) and y != 0:
                return _lit_term(x % y)
            if isinstance(op, ast.Pow) and y >= 0:
                return _lit_term(x ** y)
            if isinstance(op, ast.LShift) and y >= 0:
                return _lit_term(x << y)
            if isinstance(op, ast.RShift) and y >= 0:
                return _lit_term(x >> y)
            if isinstance(op, ast.BitAnd):
                return _lit_term(x & y)
            if isinstance(op, ast.BitOr):
                return _lit_term(x | y)
        except (OverflowError, ValueError):
            return None
        return None
    m = _LIN.fullmatch(a.strip())
    m2 = _LIN.fullmatch(b.strip())
    if m and m2 and isinstance(op, ast.Sub) and m.group(1) == m2.group(1) and m.group(2) == m2.group(2):
        return _lit_term(int(m.group(3)) - int(m2.group(3)))  # two positions relative to the same symbolic base
    if m and y is not None:
        c, X, k = int(m.group(1)), m.group(2), int(m.group(3))
        if isinstance(op, ast.Add) and k + y >= 0:
            return f"(+ (* {c} {X}) {k + y})"
        if isinstance(op, ast.Sub) and k - y >= 0:
            return f"(+ (* {c} {X}) {k - y})"
        if isinstance(op, ast.Mod) and y > 0 and c % y == 0:
            return _lit_term(k % y)
        if isinstance(op, ast.FloorDiv) and y > 0 and c % y == 0:
            q = c // y
            return f"(+ (* {q} {X}) {k // y})" if q != 1 else (f"(+ {X} {k // y})" if k // y else X)
    return None


class BindingError(Exception):
    pass


class PathEnd(Exception):
    """Path is finished (after inv preservation, infeasible assume(false), ...)."""


# ------------------------------------------------------------------------------------------------
# symbolic values
# ------------------------------------------------------------------------------------------------


class V:
    sort = "?"


@dataclasses.dataclass
class VInt(V):
    t: str
    sort = "Int"


@dataclasses.dataclass
class VBool(V):
    t: str
    sort = "Bool"


@dataclasses.dataclass
class VStr(V):
    t: str
    sort = "String"


@dataclasses.dataclass
class VNone(V):
    sort = "None"


@dataclasses.dataclass
class VTuple(V):
    items: typing.List[V]
    sort = "Tuple"


@dataclasses.dataclass
class VOpt(V):
    """None (isnone true) or a value."""

    isnone: str
    val: V
    sort = "Opt"


@dataclasses.dataclass
class VData(V):
    """A value of a named SMT sort (datatype or uninterpreted); `kind` picks the operation table."""

    kind: str
    t: str

    @property
    def sort(self):  # type: ignore
        return self.kind


@dataclasses.dataclass
class VObj(V):
    """Reference to a heap record; fields live in Ctx.heap[ref]."""

    cls: str
    ref: int
    sort = "Obj"


@dataclasses.dataclass
class VConst(V):
    """A compile-time Python object: module, class, compiled regex, intrinsic callable, enum member."""

    obj: typing.Any
    sort = "Const"


@dataclasses.dataclass
class VMaybeUnbound(V):
    """A local that is bound only if a loop body ran at least once."""

    val: V
    sort = "MaybeUnbound"


@dataclasses.dataclass
class VList(V):
    """Python-level list of symbolic values with statically known length (literals, small lists)."""

    items: typing.List[V]
    sort = "List"


@dataclasses.dataclass
class VSeq(V):
    """SMT sequence of elements of sort elem (Int | String | ...)."""

    elem: str
    t: str
    sort = "Seq"


TRUE = VBool("true")
FALSE = VBool("false")
NONE = VNone()


def is_lit_bool(v: V) -> typing.Optional[bool]:
    if isinstance(v, VBool):
        if v.t == "true":
            return True
        if v.t == "false":
            return False
    return None


# ------------------------------------------------------------------------------------------------
# contracts
# ------------------------------------------------------------------------------------------------


def lift_py(x: typing.Any) -> "V":
    """a concrete Python configuration value as an interpreter value: scalars become literals, everything else stays an
    opaque ("py", object) constant that hooks know how to index, iterate, compare and call"""
    if x is None:
        return NONE
    if isinstance(x, bool):
        return TRUE if x else FALSE
    if isinstance(x, int):
        return VInt(int_lit(x))
    if isinstance(x, str):
        return VStr(smt.str_lit(x))
    return VConst(("py", x))


@dataclasses.dataclass
class Loop:
    invariant: typing.List[str] = dataclasses.field(default_factory=list)
    variant: typing.Optional[str] = None  # Int expression that strictly decreases and is >= 0
    havoc: typing.Optional[typing.List[str]] = None  # default: variables assigned in the loop
    ghost_update: typing.Optional[typing.Callable] = None  # for abstract iterators
    iter_kind: typing.Optional[str] = None
    unroll: bool = False  # iterate a CONCRETE collection (configuration constant) element by element: no invariant needed


@dataclasses.dataclass
class Raises:
    exc: str
    when: str  # condition over the pre-state under which the function raises exc
    ensures: typing.List[typing.Tuple[str, str]] = dataclasses.field(default_factory=list)
    must: bool = True  # True: raises iff `when`; False: may raise only when `when`


@dataclasses.dataclass
class Contract:
    target: str  # "relative/file.py:Class.func"
    params: typing.Dict[str, typing.Any]  # name -> sort spec (see make_symbolic)
    requires: typing.List[str] = dataclasses.field(default_factory=list)
    ensures: typing.List[typing.Tuple[str, str]] = dataclasses.field(default_factory=list)
    raises: typing.List[Raises] = dataclasses.field(default_factory=list)
    may_raise_other: bool = False
    loops: typing.Dict[int, Loop] = dataclasses.field(default_factory=dict)
    bindings: typing.Dict[str, typing.Any] = dataclasses.field(default_factory=dict)  # free names in the body
    ghost: typing.Dict[str, typing.Any] = dataclasses.field(default_factory=dict)  # ghost vars: name -> sort spec / init
    modifies: typing.List[str] = dataclasses.field(default_factory=list)  # "self.field" heap locations a call may change
    theory: str = "arith"
    decls: typing.List[str] = dataclasses.field(default_factory=list)  # extra SMT declarations (spec functions)
    result: typing.Any = None  # sort spec of the result when used as callee contract
    timeout: int = 30
    pure: bool = True
    note: str = ""
    prune: bool = False
    decreases: typing.Optional[str] = None  # Int expression over the parameters; checked at recursive calls
    post_hook: typing.Optional[typing.Callable] = None
    label: str = ""  # distinguishes several contracts (parameter-class cases) on one function in obligation names

    @property
    def file(self) -> str:
        return self.target.split(":")[0]

    @property
    def qualname(self) -> str:
        return self.target.split(":")[1]


# sort specs ------------------------------------------------------------------------------------
@dataclasses.dataclass
class SObj:
    cls: str
    fields: typing.Dict[str, typing.Any]


@dataclasses.dataclass
class STuple:
    items: typing.List[typing.Any]


@dataclasses.dataclass
class SOpt:
    inner: typing.Any


@dataclasses.dataclass
class SData:
    kind: str


@dataclasses.dataclass
class SSeq:
    elem: str


@dataclasses.dataclass
class SConst:
    obj: typing.Any


SInt, SBool, SStr = "Int", "Bool", "String"


# ------------------------------------------------------------------------------------------------
# source access
# ------------------------------------------------------------------------------------------------


def find_function(src_root: pathlib.Path, target: str) -> typing.Tuple[ast.FunctionDef, str]:
    file, qual = target.split(":")
    path = src_root / file
    if not path.exists():
        raise BindingError(f"{path} does not exist")
    text = path.read_text()
    return find_function_in_text(text, qual, str(path)), text


def find_function_in_text(text: str, qual: str, where: str = "<text>") -> ast.FunctionDef:
    tree = ast.parse(text)
    node: typing.Any = tree
    for part in qual.split("."):
        found = None
        for ch in ast.iter_child_nodes(node):
            if isinstance(ch, (ast.FunctionDef, ast.ClassDef)) and ch.name == part:
                found = ch
        if found is None and isinstance(node, (ast.FunctionDef,)):
            for ch in ast.walk(node):
                if isinstance(ch, (ast.FunctionDef, ast.ClassDef)) and ch.name == part and ch is not node:
                    found = ch
                    break
        if found is None:
            raise BindingError(f"{qual} not found in {where}")
        node = found
    if not isinstance(node, ast.FunctionDef):
        raise BindingError(f"{qual} in {where} is not a function")
    return node


def loops_in(fn: ast.FunctionDef) -> typing.List[ast.AST]:
    out = []

    def walk(n):
        for ch in ast.iter_child_nodes(n):
            if isinstance(ch, (ast.FunctionDef, ast.Lambda, ast.ClassDef)):
                continue
            if isinstance(ch, (ast.For, ast.While)):
                out.append(ch)
            walk(ch)

    walk(fn)
    return out


def assigned_names(node: ast.AST) -> typing.List[str]:
    names: typing.List[str] = []

    def tgt(t):
        if isinstance(t, ast.Name):
            if t.id not in names:
                names.append(t.id)
        elif isinstance(t, (ast.Tuple, ast.List)):
            for e in t.elts:
                tgt(e)

    for n in ast.walk(node):
        if isinstance(n, ast.Assign):
            for t in n.targets:
                tgt(t)
        elif isinstance(n, (ast.AugAssign, ast.AnnAssign)):
            tgt(n.target)
        elif isinstance(n, ast.For):
            tgt(n.target)
        elif isinstance(n, ast.NamedExpr):
            tgt(n.target)
    return names


# ------------------------------------------------------------------------------------------------
# control-flow signals
# ------------------------------------------------------------------------------------------------


class _Return(Exception):
    def __init__(self, v: V):
        self.v = v


class _Break(Exception):
    pass


class _Continue(Exception):
    pass


class PyRaise(Exception):
    """A Python exception raised on the symbolic path."""

    def __init__(self, exc: str, payload: typing.Optional[V] = None):
        self.exc = exc
        self.payload = payload


EXC_PARENTS = {
    "KeyError": "LookupError",
    "IndexError": "LookupError",
    "LookupError": "Exception",
    "ValueError": "Exception",
    "TypeError": "Exception",
    "RuntimeError": "Exception",
    "NotImplementedError": "RuntimeError",
    "PermissionError": "OSError",
    "FileNotFoundError": "OSError",
    "OSError": "Exception",
    "AssertionError": "Exception",
    "OverflowError": "ArithmeticError",
    "ZeroDivisionError": "ArithmeticError",
    "ArithmeticError": "Exception",
    "AttributeError": "Exception",
    "StopIteration": "Exception",
    "UnboundLocalError": "NameError",
    "NameError": "Exception",
    "Exception": "BaseException",
    "UndefinedError": "TemplateRuntimeError",
    "TemplateRuntimeError": "TemplateError",
    "TemplateAssertionError": "TemplateSyntaxError",
    "TemplateSyntaxError": "TemplateError",
    "TemplateError": "Exception",
    "InvalidFilterError": "RuntimeError",
    "TemplateNotFound": "TemplateError",
}


def exc_isa(exc: str, cls: str) -> bool:
    while exc is not None:
        if exc == cls:
            return True
        exc = EXC_PARENTS.get(exc)  # type: ignore
    return False


# ------------------------------------------------------------------------------------------------
# path context
# ------------------------------------------------------------------------------------------------


class Ctx:
    def __init__(self, ex: "Explorer", contract: Contract, fname: str):
        self.ex = ex
        self.contract = contract
        self.fname = fname
        self.pc: typing.List[str] = []
        self.mutated: typing.Set[str] = set()  # value-sorted parameters mutated in place
        self.rebound: typing.Set[str] = set()  # parameters rebound to a new object by a plain assignment
        self.stale: typing.Set[int] = set()  # pc entries that only talk about state that a loop cut has havoced
        self.decls: typing.List[str] = list(contract.decls)
        self.heap: typing.Dict[int, typing.Dict[str, V]] = {}
        self.env: typing.Dict[str, V] = {}
        self.old_env: typing.Dict[str, V] = {}
        self.old_heap: typing.Dict[int, typing.Dict[str, V]] = {}
        self.ghost: typing.Dict[str, V] = {}
        self.model_vars: typing.List[str] = []
        self.counter = 0
        self.call_ordinals: typing.Dict[str, int] = {}
        self.spec_mode = 0
        self.trace: typing.List[str] = []

    # -- fresh symbols -----------------------------------------------------------------------
    def fresh(self, sort: str, hint: str = "v", model: bool = False) -> str:
        self.counter += 1
        name = f"{hint}!{self.counter}"
        name = "|" + name + "|"
        self.decls.append(f"(declare-const {name} {sort})")
        if model:
            self.model_vars.append(name)
        return name

    def new_obj(self, cls: str, fields: typing.Dict[str, V]) -> VObj:
        self.counter += 1
        ref = self.counter
        self.heap[ref] = dict(fields)
        return VObj(cls, ref)

    def make(self, spec: typing.Any, hint: str, model: bool = True) -> V:
        if isinstance(spec, V):
            return spec
        if spec == SInt:
            return VInt(self.fresh("Int", hint, model))
        if spec == SBool:
            return VBool(self.fresh("Bool", hint, model))
        if spec == SStr:
            return VStr(self.fresh("String", hint, model))
        if spec is None or spec == "None":
            return NONE
        if isinstance(spec, STuple):
            return VTuple([self.make(s, f"{hint}.{i}", model) for i, s in enumerate(spec.items)])
        if isinstance(spec, SOpt):
            return VOpt(self.fresh("Bool", hint + ".isnone", model), self.make(spec.inner, hint + ".val", model))
        if isinstance(spec, SObj):
            return self.new_obj(spec.cls, {k: self.make(s, f"{hint}.{k}", model) for k, s in spec.fields.items()})
        if isinstance(spec, SData):
            return VData(spec.kind, self.fresh(spec.kind, hint, model))
        if isinstance(spec, SSeq):
            return VSeq(spec.elem, self.fresh(f"(Seq {spec.elem})", hint, model))
        if isinstance(spec, SConst):
            return VConst(spec.obj)
        if callable(spec):
            return spec(self, hint)
        raise OutOfSubset(f"sort spec {spec!r}")

    # -- branching ---------------------------------------------------------------------------
    def branch(self, cond: V, label: str = "") -> bool:
        c = self.truthy(cond)
        lit = is_lit_bool(c)
        if lit is not None:
            return lit
        if c.t in self.pc:
            return True
        if Not(c.t) in self.pc:
            return False
        d = self.ex.decide(self, c.t)
        self.pc.append(c.t if d else Not(c.t))
        self.trace.append(("T:" if d else "F:") + label)
        return d

    def choose(self, n: int, label: str = "") -> int:
        """n-way non-deterministic choice (explored exhaustively)."""
        return self.ex.decide_n(n)

    def implied(self, t: str) -> bool:
        """Is `t` implied by the path condition?  (quick solver call; `unknown` counts as no).  Used only to pick a
        simpler but equivalent encoding, never to drop an obligation."""
        key = (len(self.pc), t)
        cache = self.__dict__.setdefault("_implied_cache", {})
        if key in cache:
            return cache[key]
        ob = smt.Obligation("implied", "aux", list(self.decls), list(self.pc), t, self.contract.theory, timeout=3,
                            meta={"stagger": 0.0})
        r = smt.solve(ob, order=["z3-new", "cvc5"] if self.contract.theory in ("string", "regex") else ["z3"])
        cache[key] = r.status == "unsat"
        self.ex.aux_queries += 1
        return cache[key]

    def assume(self, t: str) -> None:
        if t == "false":
            raise PathEnd()
        if t != "true":
            self.pc.append(t)

    def prove(self, goal: str, kind: str, label: str, theory: typing.Optional[str] = None, extra: typing.Optional[dict] = None,
              alt: typing.Optional[typing.List[typing.List[str]]] = None) -> None:
        if goal == "true":
            # still an obligation, trivially discharged; record for counting without a solver call
            self.ex.trivial += 1
            return
        name = f"{self.fname}#{kind}:{label}"
        ob = smt.Obligation(
            name=name,
            kind=kind,
            decls=list(self.decls),
            assumptions=list(self.pc),
            goal=goal,
            theory=theory or self.contract.theory,
            model_vars=list(self.model_vars),
            timeout=self.contract.timeout,
            function=self.fname,
            meta=dict(extra or {}, trace=list(self.trace)),
        )
        if self.stale:
            # weaker hypothesis set (facts about dead, havoced state dropped): `unsat` there is still a proof
            ob.alt_assumptions = [[t for i, t in enumerate(self.pc) if i not in self.stale]]
        cut = getattr(self, "cut_index", 0)
        if cut:
            # purely inductive variant: only what was assumed/learnt since the innermost loop cut
            ob.alt_assumptions.append(list(self.pc[cut:]))
        for a in alt or []:
            ob.alt_assumptions.append(list(a))
        self.ex.add_obligation(ob)

    # -- conversions -------------------------------------------------------------------------
    def truthy(self, v: V) -> VBool:
        if isinstance(v, VBool):
            return v
        if isinstance(v, VInt):
            return VBool(Not(Eq(v.t, "0")))
        if isinstance(v, VStr):
            return VBool(Not(Eq(v.t, '""')))
        if isinstance(v, VNone):
            return FALSE
        if isinstance(v, VOpt):
            inner = self.truthy(v.val) if not isinstance(v.val, (VObj, VTuple, VConst)) else TRUE
            return VBool(And(Not(v.isnone), inner.t))
        if isinstance(v, (VList, VTuple)):
            return TRUE if len(v.items) else FALSE
        if isinstance(v, VSeq):
            return VBool(Not(Eq(app("seq.len", v.t), "0")))
        if isinstance(v, VObj):
            h = self.ex.engine.truthy_hooks.get(v.cls)
            if h:
                return h(self, v)
            return TRUE
        if isinstance(v, VData):
            h = self.ex.engine.truthy_hooks.get(v.kind)
            if h:
                return h(self, v)
        if isinstance(v, VConst):
            return TRUE if v.obj else FALSE
        raise OutOfSubset(f"truthiness of {v}")

    def get_field(self, o: VObj, name: str) -> V:
        try:
            return self.heap[o.ref][name]
        except KeyError:
            raise OutOfSubset(f"field {o.cls}.{name} not declared in contract")

    def set_field(self, o: VObj, name: str, v: V) -> None:
        self.heap[o.ref][name] = v

    def snapshot_old(self) -> None:
        self.old_env = dict(self.env)
        self.old_heap = {k: dict(v) for k, v in self.heap.items()}


# ------------------------------------------------------------------------------------------------
# explorer: enumerate all paths by re-execution
# ------------------------------------------------------------------------------------------------


class Explorer:
    MAX_PATHS = 4000

    def __init__(self, engine: "Engine"):
        self.engine = engine
        self.obligations: typing.List[smt.Obligation] = []
        self._seen: typing.Set[typing.Tuple] = set()
        self.trivial = 0
        self.paths = 0
        self.prefix: typing.List[int] = []
        self.arity: typing.List[int] = []
        self.pos = 0
        self.prune = False
        self.pruned = 0
        self.aux_queries = 0

    def add_obligation(self, ob: smt.Obligation) -> None:
        key = (ob.name, tuple(ob.assumptions), ob.goal)
        if key in self._seen:
            return
        self._seen.add(key)
        n = sum(1 for o in self.obligations if o.name.split("/p")[0] == ob.name)
        ob.name = f"{ob.name}/p{n}"
        self.obligations.append(ob)

    def decide(self, ctx: Ctx, cond: str) -> bool:
        if self.pos < len(self.prefix):
            d = self.prefix[self.pos]
            self.pos += 1
            return d == 0
        # new decision point: optionally prune infeasible sides
        options = [0, 1]
        if self.prune:
            feas = []
            for side, t in ((0, cond), (1, Not(cond))):
                ob = smt.Obligation("feas", "cover", list(ctx.decls), list(ctx.pc), t, ctx.contract.theory, expect="sat", timeout=3)
                r = smt.solve(ob, order=["z3-new"] if ctx.contract.theory in ("string", "regex") else ["z3"])
                if r.status != "unsat":
                    feas.append(side)
                else:
                    self.pruned += 1
            if not feas:
                raise PathEnd()
            options = feas
        self.prefix.append(options[0])
        self.arity.append(2 if len(options) == 2 else -1)  # -1: no alternative
        self.pos += 1
        return options[0] == 0

    def decide_n(self, n: int) -> int:
        if self.pos < len(self.prefix):
            d = self.prefix[self.pos]
            self.pos += 1
            return d
        self.prefix.append(0)
        self.arity.append(n)
        self.pos += 1
        return 0

    def run(self, path_fn: typing.Callable[[], None]) -> None:
        self.prefix, self.arity = [], []
        while True:
            self.pos = 0
            self.paths += 1
            if self.paths > self.MAX_PATHS:
                raise OutOfSubset("path explosion")
            try:
                path_fn()
            except PathEnd:
                pass
            # backtrack
            while self.prefix:
                a = self.arity[-1]
                if a > 0 and self.prefix[-1] + 1 < a:
                    self.prefix[-1] += 1
                    break
                self.prefix.pop()
                self.arity.pop()
            else:
                return
            if not self.prefix:
                return


# ------------------------------------------------------------------------------------------------
# the engine
# ------------------------------------------------------------------------------------------------


class Engine:
    def __init__(self, src_root: pathlib.Path):
        self.src_root = src_root
        self.contracts: typing.Dict[str, Contract] = {}  # qualname key -> contract (for modular calls)
        self.intrinsics: typing.Dict[str, typing.Callable] = {}  # "str.startswith", "len", "Class.method"
        self.truthy_hooks: typing.Dict[str, typing.Callable] = {}
        self.assumed: typing.List[str] = []  # human-readable list of assumed library contracts actually used
        self.isinstance_hooks: typing.Dict[str, typing.Callable] = {}
        self.attr_hooks: typing.Dict[str, typing.Callable] = {}
        self.subscript_hooks: typing.Dict[str, typing.Callable] = {}
        self.store_subscript_hooks: typing.Dict[str, typing.Callable] = {}
        self.binop_hooks: typing.Dict[str, typing.Callable] = {}
        self.eq_hooks: typing.Dict[str, typing.Callable] = {}
        self.spec_fns: typing.Dict[str, typing.Callable] = {}
        self.context_managers: typing.Set[str] = {"TextIO", "File"}
        self.mutators: typing.Dict[str, typing.Callable] = {}
        self.ghost_classes: typing.Set[str] = set()  # iteration-protocol objects: their fields are ghost state
        from . import epy_lib

        epy_lib.install(self)

    def used(self, text: str) -> None:
        if text not in self.assumed:
            self.assumed.append(text)

    def add_contract(self, c: Contract, key: typing.Optional[str] = None) -> None:
        self.contracts[key or c.qualname] = c

    # -- top level ---------------------------------------------------------------------------
    def verify(self, c: Contract, text_override: typing.Optional[str] = None) -> typing.Tuple[typing.List[smt.Obligation], typing.Dict[str, typing.Any]]:
        if text_override is not None:
            fn = find_function_in_text(text_override, c.qualname)
        else:
            fn, _ = find_function(self.src_root, c.target)
        loops = loops_in(fn)
        for k in c.loops:
            if k >= len(loops):
                raise BindingError(f"{c.target}: contract names loop #{k} but the function has {len(loops)} loops")
        for i, lp in enumerate(loops):
            if i not in c.loops:
                raise BindingError(f"{c.target}: loop #{i} (line {lp.lineno}) has no invariant in the contract")
        argnames = [a.arg for a in fn.args.posonlyargs + fn.args.args + fn.args.kwonlyargs]
        for p in c.params:
            if p not in argnames:
                raise BindingError(f"{c.target}: contract parameter {p} is not a parameter of the function {argnames}")
        for a in argnames:
            if a not in c.params:
                raise BindingError(f"{c.target}: parameter {a} has no sort in the contract")
        ex = Explorer(self)
        ex.prune = c.prune
        loop_ids = {id(lp): i for i, lp in enumerate(loops)}
        info = {"paths": 0, "returns": 0, "raises": 0}

        def one_path() -> None:
            ctx = Ctx(ex, c, c.qualname + (f"[{c.label}]" if c.label else ""))
            interp = Interp(self, ctx, loop_ids)
            for name, spec in c.params.items():
                ctx.env[name] = ctx.make(spec, name)
            if fn.args.vararg is not None:
                ctx.env[fn.args.vararg.arg] = VConst("passthrough")
            if fn.args.kwarg is not None:
                ctx.env[fn.args.kwarg.arg] = VConst("passthrough")
            for name, spec in c.ghost.items():
                ctx.ghost[name] = ctx.make(spec, "ghost." + name)
            for name, b in c.bindings.items():
                ctx.env.setdefault(name, b if isinstance(b, V) else VConst(b))
            for name, b in self.std_bindings.items():
                ctx.env.setdefault(name, b)
            ctx.snapshot_old()
            ctx.old_ghost = dict(ctx.ghost)  # type: ignore
            interp._outer_old_env = dict(ctx.old_env)  # type: ignore
            for r in c.requires:
                ctx.assume(interp.spec_bool(r))
            outcome: typing.Tuple[str, typing.Any]
            try:
                interp.exec_block(fn.body)
                outcome = ("return", NONE)
            except _Return as r:
                outcome = ("return", r.v)
            except PyRaise as e:
                outcome = ("raise", e)
            interp.check_post(outcome)
            if outcome[0] == "return":
                info["returns"] += 1
            else:
                info["raises"] += 1

        ex.run(one_path)
        info["paths"] = ex.paths
        info["trivial"] = ex.trivial
        info["pruned"] = ex.pruned
        return ex.obligations, info


def fields_from_init(engine: Engine, target: str, cls: str, args: typing.Dict[str, typing.Any]) -> typing.Dict[str, V]:
    """Run the real (straight-line) __init__ symbolically on a fresh object and return the fields it sets; used to
    bind configuration such as compiled patterns to what the working tree really contains."""
    fn, _ = find_function(engine.src_root, target)
    c = Contract(target=target, params={})
    ex = Explorer(engine)
    ctx = Ctx(ex, c, c.qualname)
    ctx.allow_new_fields = True  # type: ignore
    it = Interp(engine, ctx, {})
    argnames = [a.arg for a in fn.args.args]
    obj = ctx.new_obj(cls, {})
    ctx.env[argnames[0]] = obj
    for a in argnames[1:]:
        if a not in args:
            raise BindingError(f"{target}: no value for parameter {a}")
        ctx.env[a] = ctx.make(args[a], a)
    for name, b in engine.std_bindings.items():
        ctx.env.setdefault(name, b)
    pos0 = len(ex.prefix)
    it.exec_block(fn.body)
    if len(ex.prefix) != pos0:
        raise OutOfSubset(f"{target}: __init__ is not straight-line")
    return dict(ctx.heap[obj.ref])


# ------------------------------------------------------------------------------------------------
# interpreter
# ------------------------------------------------------------------------------------------------


class Interp:
    def __init__(self, engine: Engine, ctx: Ctx, loop_ids: typing.Dict[int, int]):
        self.e = engine
        self.ctx = ctx
        self.loop_ids = loop_ids

    # -- spec expressions ----------------------------------------------------------------------
    def spec_eval(self, text: str, extra: typing.Optional[typing.Dict[str, V]] = None) -> V:
        node = ast.parse(textwrap.dedent(text).strip(), mode="eval").body
        self.ctx.spec_mode += 1
        saved = None
        if extra:
            saved = dict(self.ctx.env)
            self.ctx.env.update(extra)
        try:
            return self.eval(node)
        finally:
            self.ctx.spec_mode -= 1
            if saved is not None:
                self.ctx.env = saved

    def spec_bool(self, text: str, extra: typing.Optional[typing.Dict[str, V]] = None) -> str:
        return self.ctx.truthy(self.spec_eval(text, extra)).t

    def check_post(self, outcome: typing.Tuple[str, typing.Any]) -> None:
        c = self.ctx.contract
        ctx = self.ctx
        self.check_frame()
        # exceptional behaviour: "raises E iff when"
        old = self._old_view()
        if outcome[0] == "return":
            for rs in c.raises:
                if not rs.must:
                    continue
                w = self._in_old(lambda: self.spec_bool(rs.when))
                ctx.prove(Not(w), "post", f"no-return-when-{rs.exc}-required")
            earlier: typing.List[str] = []
            for name, text in c.ensures:
                g = self.spec_bool(text, {"result": outcome[1]})
                # cut rule: a postcondition may also be derived from the postconditions listed before it alone (each of
                # those is an obligation of its own at this exit, so the verdict needs all of them discharged anyway);
                # `unsat` on that small hypothesis set is a proof, `sat` there is ignored
                ctx.prove(g, "post", name, alt=[list(earlier)] if earlier else None)
                if g != "true":
                    earlier.append(g)
            if c.post_hook:
                c.post_hook(self, outcome)
            ctx.ex.engine  # noqa
        else:
            e: PyRaise = outcome[1]
            matching = [rs for rs in c.raises if exc_isa(e.exc, rs.exc)]
            if not matching:
                if c.may_raise_other:
                    return
                ctx.prove("false", "post", f"unexpected-raise-{e.exc}")
                return
            conds = [self._in_old(lambda rs=rs: self.spec_bool(rs.when)) for rs in matching]
            ctx.prove(Or(*conds), "post", f"raise-{e.exc}-only-when-specified")
            for rs in matching:
                for name, text in rs.ensures:
                    ctx.prove(self.spec_bool(text), "post", f"{rs.exc}:{name}")
        del old

    def check_frame(self) -> None:
        """Frame: every heap field of a parameter object and every in-place mutated value parameter that the contract
        does not list under `modifies` must be unchanged at exit."""
        ctx = self.ctx
        c = ctx.contract
        for m in sorted(ctx.mutated):
            if m not in c.modifies:
                ctx.prove("false", "frame", f"{m}-mutated-in-place-but-not-in-modifies")
        for pname in c.params:
            o = ctx.old_env.get(pname)
            if not isinstance(o, VObj) or o.cls in self.e.ghost_classes:
                continue
            for fld, oldv in ctx.old_heap.get(o.ref, {}).items():
                if f"{pname}.{fld}" in c.modifies:
                    continue
                newv = ctx.heap[o.ref].get(fld)
                if newv is oldv or newv == oldv:
                    continue
                try:
                    g = self.equals(newv, oldv).t  # type: ignore
                except OutOfSubset:
                    g = "false"
                ctx.prove(g, "frame", f"{pname}.{fld}-unchanged")

    def _old_view(self):
        return None

    def _in_old(self, f: typing.Callable[[], typing.Any]) -> typing.Any:
        ctx = self.ctx
        env, heap, ghost = ctx.env, ctx.heap, ctx.ghost
        ctx.env, ctx.heap, ctx.ghost = dict(ctx.old_env), {k: dict(v) for k, v in ctx.old_heap.items()}, dict(getattr(ctx, "old_ghost", {}))
        try:
            return f()
        finally:
            ctx.env, ctx.heap, ctx.ghost = env, heap, ghost

    # -- statements ----------------------------------------------------------------------------
    def exec_block(self, stmts: typing.List[ast.stmt]) -> None:
        for s in stmts:
            self.exec(s)

    def exec(self, s: ast.stmt) -> None:
        m = getattr(self, "s_" + type(s).__name__, None)
        if m is None:
            raise OutOfSubset(f"statement {type(s).__name__} at line {s.lineno}")
        m(s)

    def s_Expr(self, s: ast.Expr) -> None:
        if isinstance(s.value, ast.Constant):
            return  # docstring
        self.eval(s.value)

    def s_Delete(self, s: ast.Delete) -> None:
        for t in s.targets:
            if isinstance(t, ast.Name):
                self.ctx.env.pop(t.id, None)
            else:
                raise OutOfSubset("del of a non-name")

    def s_Pass(self, s: ast.Pass) -> None:
        pass

    def s_Import(self, s: ast.Import) -> None:
        pass  # names resolved through contract bindings

    def s_ImportFrom(self, s: ast.ImportFrom) -> None:
        pass

    def s_Assign(self, s: ast.Assign) -> None:
        v = self.eval(s.value)
        for t in s.targets:
            if isinstance(t, ast.Name) and t.id in self.ctx.contract.params:
                self.ctx.rebound.add(t.id)
            self.assign(t, v)

    def s_AnnAssign(self, s: ast.AnnAssign) -> None:
        if s.value is not None:
            self.assign(s.target, self.eval(s.value))

    def s_AugAssign(self, s: ast.AugAssign) -> None:
        load = copy.copy(s.target)
        load.ctx = ast.Load()  # type: ignore
        cur = self.eval(load)  # type: ignore
        v = self.binop(s.op, cur, self.eval(s.value))
        self.assign(s.target, v)

    def assign(self, t: ast.expr, v: V) -> None:
        ctx = self.ctx
        if isinstance(t, ast.Name):
            if not getattr(self, "_in_store_hook", False) and t.id in ctx.contract.params and not ctx.spec_mode:
                pass
            ah = getattr(self.e, "assign_hook", None)
            if ah is not None and not ctx.spec_mode:
                v = ah(self, t.id, v)  # may replace a value by a literal it is PROVED equal to (never adds a fact)
            ctx.env[t.id] = self.named(v, t.id)
        elif isinstance(t, (ast.Tuple, ast.List)):
            items = self.unpack(v, len(t.elts))
            for tt, vv in zip(t.elts, items):
                self.assign(tt, vv)
        elif isinstance(t, ast.Attribute):
            o = self.eval(t.value)
            if isinstance(o, VObj):
                if t.attr not in ctx.heap[o.ref] and not getattr(ctx, "allow_new_fields", False):
                    raise OutOfSubset(f"store to undeclared field {o.cls}.{t.attr}")
                ctx.set_field(o, t.attr, self.named(v, f"{o.cls}.{t.attr}"))
            else:
                raise OutOfSubset(f"attribute store on {o}")
        elif isinstance(t, ast.Subscript):
            o = self.eval(t.value)
            if isinstance(t.slice, ast.Slice):
                if t.slice.step is not None:
                    raise OutOfSubset("slice step")
                k = VTuple([self.eval(t.slice.lower) if t.slice.lower is not None else NONE, self.eval(t.slice.upper) if t.slice.upper is not None else NONE])
            else:
                k = self.eval(t.slice)
            h = self.e.store_subscript_hooks.get(o.sort if not isinstance(o, VObj) else o.cls)
            if h is None:
                raise OutOfSubset(f"subscript store on {o.sort}")
            nv = h(self, o, k, v)
            if nv is not None:
                # value-semantics container: rebind the root name
                self._note_mutation(t.value)
                self.assign(t.value, nv)
        else:
            raise OutOfSubset(f"assignment target {type(t).__name__}")

    def _note_mutation(self, target: ast.expr) -> None:
        """An in-place mutation of a value-sorted container reached through `target`: if the root is a parameter that
        still holds the caller's object, the caller sees it -> it must be in the contract's `modifies`."""
        if isinstance(target, ast.Name) and target.id in self.ctx.contract.params and target.id not in self.ctx.rebound:
            self.ctx.mutated.add(target.id)

    def named(self, v: V, hint: str) -> V:
        """Give a compound term a name (fresh constant + defining equation): keeps queries small and shared."""
        ctx = self.ctx
        if isinstance(v, (VInt, VStr, VBool)) and len(v.t) > 48 and not ctx.spec_mode:
            c = ctx.fresh(v.sort, hint)
            ctx.pc.append(Eq(c, v.t))
            return type(v)(c)
        if isinstance(v, VTuple):
            return VTuple([self.named(x, f"{hint}.{i}") for i, x in enumerate(v.items)])
        return v

    def unpack(self, v: V, n: int) -> typing.List[V]:
        if isinstance(v, (VTuple, VList)):
            if len(v.items) != n:
                raise PyRaise("ValueError")
            return v.items
        raise OutOfSubset(f"unpack of {v.sort}")

    def s_Return(self, s: ast.Return) -> None:
        raise _Return(self.eval(s.value) if s.value is not None else NONE)

    def s_If(self, s: ast.If) -> None:
        c = self.eval(s.test)
        if self.ctx.branch(c, f"if@{s.lineno}"):
            self.exec_block(s.body)
        else:
            self.exec_block(s.orelse)

    def s_Assert(self, s: ast.Assert) -> None:
        c = self.ctx.truthy(self.eval(s.test))
        if self.ctx.branch(c, f"assert@{s.lineno}"):
            return
        raise PyRaise("AssertionError")

    def s_Raise(self, s: ast.Raise) -> None:
        if s.exc is None:
            stack = getattr(self, "_exc_stack", [])
            if not stack:
                raise OutOfSubset("bare raise outside a handler")
            raise PyRaise(stack[-1].exc, stack[-1].payload)
        exc = s.exc
        payload = None
        if isinstance(exc, ast.Call):
            name = self._dotted(exc.func)
            # message arguments are evaluated only for their effects/obligations if they are simple
            payload = None
        else:
            if isinstance(exc, ast.Name) and isinstance(self.ctx.env.get(exc.id), VConst):
                o = self.ctx.env[exc.id].obj  # type: ignore
                if isinstance(o, tuple) and o and o[0] == "exception":
                    raise PyRaise(o[1], payload)  # `raise pending_error`: re-raise a caught/passed exception object
            name = self._dotted(exc)
        raise PyRaise(name.split(".")[-1], payload)

    def s_Break(self, s: ast.Break) -> None:
        raise _Break()

    def s_Continue(self, s: ast.Continue) -> None:
        raise _Continue()

    def s_Try(self, s: ast.Try) -> None:
        if s.finalbody:
            raise OutOfSubset("try/finally")
        try:
            self.exec_block(s.body)
        except PyRaise as e:
            for h in s.handlers:
                names = []
                if h.type is None:
                    names = ["BaseException"]
                elif isinstance(h.type, ast.Tuple):
                    names = [self._dotted(x).split(".")[-1] for x in h.type.elts]
                else:
                    names = [self._dotted(h.type).split(".")[-1]]
                if any(exc_isa(e.exc, n) for n in names):
                    if h.name:
                        self.ctx.env[h.name] = VConst(("exception", e.exc))
                    self.__dict__.setdefault("_exc_stack", []).append(e)
                    try:
                        self.exec_block(h.body)
                    finally:
                        self._exc_stack.pop()
                    return
            raise
        else:
            self.exec_block(s.orelse)

    # loops ------------------------------------------------------------------------------------
    def _loop_contract(self, s: ast.AST) -> typing.Tuple[int, Loop]:
        i = self.loop_ids[id(s)]
        return i, self.ctx.contract.loops[i]

    def _havoc_set(self, s: ast.AST, lp: Loop) -> typing.List[str]:
        """Assigned names, plus every object variable mentioned in the loop (fields havoced in place), plus
        every ghost variable; `lp.havoc` can only add to it."""
        names = list(assigned_names(s))
        for n in ast.walk(s):
            if isinstance(n, ast.Name) and n.id not in names and isinstance(self.ctx.env.get(n.id), VObj):
                names.append(n.id)
        for g in self.ctx.ghost:
            names.append("ghost." + g)
        for n in lp.havoc or []:
            if n not in names:
                names.append(n)
        return names

    def _havoc_obj(self, o: VObj, hint: str, seen: typing.Set[int]) -> None:
        if o.ref in seen:
            return
        seen.add(o.ref)
        ctx = self.ctx
        for k, x in list(ctx.heap[o.ref].items()):
            if isinstance(x, VObj):
                self._havoc_obj(x, f"{hint}.{k}", seen)
            else:
                ctx.heap[o.ref][k] = self._fresh_like(x, f"{hint}.{k}")

    def _live_symbols(self) -> typing.Set[str]:
        ctx = self.ctx
        out: typing.Set[str] = set()
        seen: typing.Set[int] = set()

        def walk(v: typing.Any) -> None:
            if isinstance(v, VObj):
                if v.ref in seen:
                    return
                seen.add(v.ref)
                for x in ctx.heap.get(v.ref, {}).values():
                    walk(x)
            elif isinstance(v, (VTuple, VList)):
                for x in v.items:
                    walk(x)
            elif isinstance(v, VOpt):
                out.update(_SYM.findall(v.isnone))
                walk(v.val)
            elif hasattr(v, "t"):
                out.update(_SYM.findall(v.t))

        for v in list(ctx.env.values()) + list(ctx.ghost.values()) + list(ctx.old_env.values()) + list(getattr(ctx, "old_ghost", {}).values()):
            walk(v)
        for h in ctx.old_heap.values():
            for x in h.values():
                walk(x)
        return out

    def _havoc(self, names: typing.List[str], s: ast.AST) -> None:
        before = self._live_symbols()
        self.ctx.cut_index = len(self.ctx.pc)  # type: ignore
        self._havoc_inner(names, s)
        dead = before - self._live_symbols()
        if dead:
            ctx = self.ctx
            for i, t in enumerate(ctx.pc):
                if i not in ctx.stale and dead.intersection(_SYM.findall(t)):
                    ctx.stale.add(i)

    def _havoc_inner(self, names: typing.List[str], s: ast.AST) -> None:
        ctx = self.ctx
        seen: typing.Set[int] = set()
        for n in names:
            if isinstance(ctx.env.get(n), VObj):
                self._havoc_obj(ctx.env[n], n, seen)  # type: ignore
                continue
            if n.startswith("ghost."):
                g = n[6:]
                ctx.ghost[g] = self._fresh_like(ctx.ghost[g], n)
                continue
            if "." in n:
                base, fld = n.split(".", 1)
                o = ctx.env.get(base)
                if isinstance(o, VObj):
                    ctx.set_field(o, fld, self._fresh_like(ctx.get_field(o, fld), n))
                    continue
                raise OutOfSubset(f"havoc of {n}")
            if n in ctx.env:
                ctx.env[n] = self._fresh_like(ctx.env[n], n)
            # variables first assigned inside the loop are undefined before it: nothing to havoc

    def _fresh_like(self, v: V, hint: str) -> V:
        ctx = self.ctx
        if isinstance(v, VInt):
            return VInt(ctx.fresh("Int", hint))
        if isinstance(v, VBool):
            return VBool(ctx.fresh("Bool", hint))
        if isinstance(v, VStr):
            return VStr(ctx.fresh("String", hint))
        if isinstance(v, VData):
            return VData(v.kind, ctx.fresh(v.kind, hint))
        if isinstance(v, VSeq):
            return VSeq(v.elem, ctx.fresh(f"(Seq {v.elem})", hint))
        if isinstance(v, VOpt):
            return VOpt(ctx.fresh("Bool", hint + ".isnone"), self._fresh_like(v.val, hint + ".val"))
        if isinstance(v, VTuple):
            return VTuple([self._fresh_like(x, f"{hint}.{i}") for i, x in enumerate(v.items)])
        if isinstance(v, VObj):
            return ctx.new_obj(v.cls, {k: self._fresh_like(x, f"{hint}.{k}") for k, x in ctx.heap[v.ref].items()})
        if isinstance(v, (VNone, VConst)):
            return v
        raise OutOfSubset(f"havoc of {v.sort}")

    def _prove_inv(self, lp: Loop, idx: int, kind: str) -> None:
        for j, inv in enumerate(lp.invariant):
            self.ctx.prove(self.spec_bool(inv), kind, f"loop{idx}.inv{j}")

    def _assume_inv(self, lp: Loop) -> None:
        for inv in lp.invariant:
            self.ctx.assume(self.spec_bool(inv))

    def s_While(self, s: ast.While) -> None:
        idx, lp = self._loop_contract(s)
        ctx = self.ctx
        if lp.unroll:
            # complete unrolling of a loop whose trip count is fixed by literals of the case under verification; the cap is a
            # guard against a non-terminating unrolling, exceeding it leaves the function undecided
            for _ in range(130):
                if not ctx.branch(self.eval(s.test), f"while@{s.lineno}"):
                    self.exec_block(s.orelse)
                    return
                try:
                    self.exec_block(s.body)
                except _Break:
                    return
                except _Continue:
                    pass
            raise OutOfSubset("unrolled while loop exceeds 130 iterations")
        self._prove_inv(lp, idx, "inv-init")
        self._havoc(self._havoc_set(s, lp), s)
        self._assume_inv(lp)
        v0 = self.spec_eval(lp.variant) if lp.variant else None
        c = self.eval(s.test)
        if ctx.branch(c, f"while@{s.lineno}"):
            try:
                self.exec_block(s.body)
            except _Break:
                return  # falls out of the loop with the state at the break (else-clause skipped)
            except _Continue:
                pass
            self._prove_inv(lp, idx, "inv-pres")
            if v0 is not None:
                v1 = self.spec_eval(lp.variant)
                ctx.prove(And(app("<=", "0", v0.t), app("<", v1.t, v0.t)), "variant", f"loop{idx}")  # type: ignore
            raise PathEnd()
        else:
            self.exec_block(s.orelse)

    def s_For(self, s: ast.For) -> None:
        idx, lp = self._loop_contract(s)
        ctx = self.ctx
        it = self.eval(s.iter)
        if lp.unroll:
            items = None
            if isinstance(it, (VList, VTuple)):
                items = list(it.items)
            elif isinstance(it, VConst) and isinstance(it.obj, tuple) and it.obj and it.obj[0] == "py" and isinstance(it.obj[1], (list, tuple)):
                items = [lift_py(x) for x in it.obj[1]]
            if items is None:
                uh = self.e.intrinsics.get("unroll:" + (it.cls if isinstance(it, VObj) else it.sort))
                items = uh(self, it) if uh else None
            if items is None:
                raise OutOfSubset(f"unrolled for over a non-concrete collection ({it.sort})")
            broke = False
            for x in items:
                self.assign(s.target, x)
                try:
                    self.exec_block(s.body)
                except _Break:
                    broke = True
                    break
                except _Continue:
                    pass
            if not broke:
                self.exec_block(s.orelse)
            return
        h = self.e.intrinsics.get("for:" + (it.cls if isinstance(it, VObj) else it.sort))
        if h is None:
            raise OutOfSubset(f"for over {it.sort}")
        # protocol: h(self, it) -> object with .init(), .has_next() -> VBool, .next() -> V (advances ghost state)
        proto = h(self, it)
        proto.init()
        self._prove_inv(lp, idx, "inv-init")
        self._havoc(self._havoc_set(s, lp), s)
        proto.havoc()
        self._assume_inv(lp)
        if ctx.branch(proto.has_next(), f"for@{s.lineno}"):
            self.assign(s.target, proto.next())
            try:
                self.exec_block(s.body)
            except _Break:
                return
            except _Continue:
                pass
            self._prove_inv(lp, idx, "inv-pres")
            # for-loops over finite collections terminate by construction (variant = remaining elements)
            raise PathEnd()
        else:
            proto.done()
            if isinstance(s.target, ast.Name) and s.target.id not in ctx.env and hasattr(proto, "shape"):
                # after the loop the target is bound only if the body ran at least once (then: some element)
                ctx.env[s.target.id] = VMaybeUnbound(proto.shape())
            self.exec_block(s.orelse)

    def s_With(self, s: ast.With) -> None:
        # context managers are modelled as: evaluate, bind, run the body (files: closing has no modelled effect)
        for item in s.items:
            v = self.eval(item.context_expr)
            if not (isinstance(v, VObj) and v.cls in self.e.context_managers):
                raise OutOfSubset(f"with over {v.sort}")
            if item.optional_vars is not None:
                self.assign(item.optional_vars, v)
        self.exec_block(s.body)

    def s_FunctionDef(self, s: ast.FunctionDef) -> None:
        self.ctx.env[s.name] = VConst(("localfn", s))

    # -- expressions ---------------------------------------------------------------------------
    def eval(self, n: ast.expr) -> V:
        m = getattr(self, "e_" + type(n).__name__, None)
        if m is None:
            raise OutOfSubset(f"expression {type(n).__name__} at line {getattr(n, 'lineno', '?')}")
        return m(n)

    def e_Constant(self, n: ast.Constant) -> V:
        v = n.value
        if v is None:
            return NONE
        if isinstance(v, bool):
            return TRUE if v else FALSE
        if isinstance(v, int):
            return VInt(int_lit(v))
        if isinstance(v, str):
            return VStr(str_lit(v))
        if v is Ellipsis:
            return VConst("...")
        if isinstance(v, float) and "float-constant" in self.e.intrinsics:
            return self.e.intrinsics["float-constant"](self, v)
        raise OutOfSubset(f"constant {v!r}")

    def e_Name(self, n: ast.Name) -> V:
        ctx = self.ctx
        if n.id in ctx.env:
            v = ctx.env[n.id]
            if isinstance(v, VMaybeUnbound):
                if ctx.branch(VBool(ctx.fresh("Bool", f"{n.id}.unbound")), "maybe-unbound"):
                    raise PyRaise("UnboundLocalError")
                ctx.env[n.id] = v.val
                return v.val
            return v
        if ctx.spec_mode and n.id in ctx.ghost:
            return ctx.ghost[n.id]
        if n.id in ("True", "False", "None"):
            return {"True": TRUE, "False": FALSE, "None": NONE}[n.id]
        if n.id in self.e.intrinsics or n.id in self.e.spec_fns:
            return VConst(("fn", n.id))
        if n.id in EXC_PARENTS:
            return VConst(("exc", n.id))
        raise OutOfSubset(f"unbound name {n.id}")

    def e_Tuple(self, n: ast.Tuple) -> V:
        return VTuple([self.eval(x) for x in n.elts])

    def e_List(self, n: ast.List) -> V:
        return VList([self.eval(x) for x in n.elts])

    def e_Dict(self, n: ast.Dict) -> V:
        h = self.e.intrinsics.get("dict-literal")
        if h is None:
            raise OutOfSubset("dict literal")
        keys = [self.eval(k) for k in n.keys]  # type: ignore
        vals = [self.eval(v) for v in n.values]
        return h(self, keys, vals)

    def e_JoinedStr(self, n: ast.JoinedStr) -> V:
        # plain {expr} pieces of string type are concatenated; a piece with a conversion/format spec goes through the
        # "format:<spec>" intrinsic if one is registered; anything else (messages) is an unconstrained string
        parts: typing.List[str] = []
        try:
            for v in n.values:
                if isinstance(v, ast.Constant) and isinstance(v.value, str):
                    parts.append(smt.str_lit(v.value))
                elif isinstance(v, ast.FormattedValue) and v.conversion == -1:
                    spec = None
                    if v.format_spec is not None:
                        fs = v.format_spec
                        if not (isinstance(fs, ast.JoinedStr) and len(fs.values) == 1 and isinstance(fs.values[0], ast.Constant)):
                            raise OutOfSubset("computed format spec")
                        spec = fs.values[0].value
                    x = self.eval(v.value)
                    if spec is None and isinstance(x, VStr):
                        parts.append(x.t)
                    elif spec is not None and ("format:" + spec) in self.e.intrinsics:
                        parts.append(self.e.intrinsics["format:" + spec](self, x).t)
                    else:
                        raise OutOfSubset("f-string piece")
                else:
                    raise OutOfSubset("f-string piece")
        except (OutOfSubset, PyRaise):
            return VStr(self.ctx.fresh("String", "fstr"))
        if not parts:
            return VStr('""')
        return VStr(parts[0] if len(parts) == 1 else app("str.++", *parts))

    def e_IfExp(self, n: ast.IfExp) -> V:
        c = self.eval(n.test)
        if self.ctx.branch(c, f"ifexp@{n.lineno}"):
            return self.eval(n.body)
        return self.eval(n.orelse)

    def e_BoolOp(self, n: ast.BoolOp) -> V:
        ctx = self.ctx
        if ctx.spec_mode:
            # pure: build a formula without forking
            vals = [ctx.truthy(self.eval(x)).t for x in n.values]
            return VBool(And(*vals) if isinstance(n.op, ast.And) else Or(*vals))
        last: V = TRUE
        for i, x in enumerate(n.values):
            last = self.eval(x)
            if i == len(n.values) - 1:
                return last
            t = ctx.branch(last, f"boolop@{n.lineno}.{i}")
            if isinstance(n.op, ast.And) and not t:
                return last if not isinstance(last, VBool) else FALSE
            if isinstance(n.op, ast.Or) and t:
                return last if not isinstance(last, VBool) else TRUE
        return last

    def e_UnaryOp(self, n: ast.UnaryOp) -> V:
        v = self.eval(n.operand)
        if isinstance(n.op, ast.Not):
            return VBool(Not(self.ctx.truthy(v).t))
        if isinstance(n.op, ast.USub) and isinstance(v, VInt):
            k = _int_lit(v.t)
            return VInt(_lit_term(-k) if k is not None else app("-", v.t))
        if isinstance(n.op, ast.USub) and f"neg:{v.sort}" in self.e.intrinsics:
            return self.e.intrinsics[f"neg:{v.sort}"](self, v)
        raise OutOfSubset(f"unary {type(n.op).__name__} on {v.sort}")

    def e_BinOp(self, n: ast.BinOp) -> V:
        return self.binop(n.op, self.eval(n.left), self.eval(n.right))

    def binop(self, op: ast.operator, a: V, b: V) -> V:
        if isinstance(a, VBool) and isinstance(b, (VInt, VBool)) and not isinstance(op, (ast.BitAnd, ast.BitOr)):
            a = VInt(Ite(a.t, "1", "0"))
        if isinstance(b, VBool) and isinstance(a, VInt):
            b = VInt(Ite(b.t, "1", "0"))
        if isinstance(a, VInt) and isinstance(b, VInt):
            folded = _fold_int(op, a.t, b.t)
            if folded is not None:
                return VInt(folded)
            if isinstance(op, ast.Add):
                return VInt(app("+", a.t, b.t))
            if isinstance(op, ast.Sub):
                return VInt(app("-", a.t, b.t))
            if isinstance(op, ast.Mult):
                return VInt(app("*", a.t, b.t))
            if isinstance(op, (ast.FloorDiv, ast.Mod)):
                if self.ctx.branch(VBool(Eq(b.t, "0")), "div0"):
                    raise PyRaise("ZeroDivisionError")
                # Python floor semantics; SMT div/mod are Euclidean: equal when divisor > 0
                q = Ite(app(">", b.t, "0"), app("div", a.t, b.t), app("div", app("-", a.t), app("-", b.t)))
                if isinstance(op, ast.FloorDiv):
                    return VInt(q)
                return VInt(app("-", a.t, app("*", b.t, q)))
            if isinstance(op, ast.Pow) and a.t.isdigit() and b.t.isdigit():
                return VInt(str(int(a.t) ** int(b.t)))  # literal power folded (e.g. 2**63)
            h = self.e.binop_hooks.get("Int." + type(op).__name__)
            if h:
                return h(self, a, b)
        if isinstance(a, VStr) and isinstance(b, VStr) and isinstance(op, ast.Add):
            return VStr(app("str.++", a.t, b.t))
        if isinstance(a, VList) and isinstance(b, VList) and isinstance(op, ast.Add):
            return VList(a.items + b.items)
        key = f"{a.sort if not isinstance(a, VObj) else a.cls}.{type(op).__name__}"
        h = self.e.binop_hooks.get(key)
        if h:
            return h(self, a, b)
        raise OutOfSubset(f"binop {type(op).__name__} on {a.sort},{b.sort}")

    def e_Compare(self, n: ast.Compare) -> V:
        left = self.eval(n.left)
        res: typing.List[str] = []
        for op, rn in zip(n.ops, n.comparators):
            right = self.eval(rn)
            res.append(self.compare(op, left, right).t)
            left = right
        return VBool(And(*res))

    def compare(self, op: ast.cmpop, a: V, b: V) -> VBool:
        if isinstance(op, (ast.Is, ast.IsNot)):
            r = self.is_same(a, b)
            return r if isinstance(op, ast.Is) else VBool(Not(r.t))
        if isinstance(op, (ast.Eq, ast.NotEq)):
            r = self.equals(a, b)
            return r if isinstance(op, ast.Eq) else VBool(Not(r.t))
        if isinstance(op, (ast.In, ast.NotIn)):
            r = self.contains(b, a)
            return r if isinstance(op, ast.In) else VBool(Not(r.t))
        if isinstance(a, VBool):
            a = VInt(Ite(a.t, "1", "0"))
        if isinstance(b, VBool):
            b = VInt(Ite(b.t, "1", "0"))
        if isinstance(a, VInt) and isinstance(b, VInt):
            sym = {ast.Lt: "<", ast.LtE: "<=", ast.Gt: ">", ast.GtE: ">="}[type(op)]
            x, y = _int_lit(a.t), _int_lit(b.t)
            if x is not None and y is not None:
                return VBool("true" if {"<": x < y, "<=": x <= y, ">": x > y, ">=": x >= y}[sym] else "false")
            return VBool(app(sym, a.t, b.t))
        if isinstance(a, VStr) and isinstance(b, VStr):
            sym = {ast.Lt: "str.<", ast.LtE: "str.<="}.get(type(op))
            if sym:
                return VBool(app(sym, a.t, b.t))
            sym = {ast.Gt: "str.<", ast.GtE: "str.<="}.get(type(op))
            if sym:
                return VBool(app(sym, b.t, a.t))
        h = self.e.binop_hooks.get(f"cmp:{a.sort}") or self.e.binop_hooks.get(f"cmp:{b.sort}")
        if h:
            return h(self, op, a, b)
        raise OutOfSubset(f"compare {type(op).__name__} on {a.sort},{b.sort}")

    def is_same(self, a: V, b: V) -> VBool:
        if isinstance(b, VNone):
            a, b = b, a
        if isinstance(a, VNone):
            if isinstance(b, VNone):
                return TRUE
            if isinstance(b, VOpt):
                return VBool(b.isnone)
            if isinstance(b, VData):
                h = self.e.eq_hooks.get(b.kind + ".isnone")
                if h:
                    return h(self, b)
            return FALSE
        if isinstance(a, VObj) and isinstance(b, VObj):
            return TRUE if a.ref == b.ref else FALSE
        if isinstance(a, VConst) and isinstance(b, VConst):
            return TRUE if a.obj is b.obj or a.obj == b.obj else FALSE
        if isinstance(a, VBool) and isinstance(b, VBool):
            return VBool(Eq(a.t, b.t))
        h = self.e.eq_hooks.get((a.sort if not isinstance(a, VObj) else a.cls) + ".is")
        if h:
            return h(self, a, b)
        raise OutOfSubset(f"`is` on {a.sort},{b.sort}")

    def equals(self, a: V, b: V) -> VBool:
        if isinstance(a, VNone) or isinstance(b, VNone):
            return self.is_same(a, b)
        if isinstance(a, VBool) and isinstance(b, VInt):
            a = VInt(Ite(a.t, "1", "0"))
        if isinstance(b, VBool) and isinstance(a, VInt):
            b = VInt(Ite(b.t, "1", "0"))
        if isinstance(a, VInt) and isinstance(b, VInt) and _int_lit(a.t) is not None and _int_lit(b.t) is not None:
            return VBool("true" if _int_lit(a.t) == _int_lit(b.t) else "false")
        if type(a) is type(b) and isinstance(a, (VInt, VBool, VStr)):
            return VBool(Eq(a.t, b.t))  # type: ignore
        if isinstance(a, VData) and isinstance(b, VData) and a.kind == b.kind:
            h = self.e.eq_hooks.get(a.kind + ".eq")
            if h and not self.ctx.spec_mode:  # contracts use mathematical equality; code uses the type's __eq__
                return h(self, a, b)
            return VBool(Eq(a.t, b.t))
        if isinstance(a, VSeq) and isinstance(b, VSeq):
            return VBool(Eq(a.t, b.t))
        if isinstance(a, (VTuple, VList)) and isinstance(b, (VTuple, VList)) and type(a) is type(b):
            if len(a.items) != len(b.items):
                return FALSE
            return VBool(And(*[self.equals(x, y).t for x, y in zip(a.items, b.items)]))
        if isinstance(a, VOpt) and isinstance(b, VOpt):
            return VBool(Or(And(a.isnone, b.isnone), And(Not(a.isnone), Not(b.isnone), self.equals(a.val, b.val).t)))
        if isinstance(a, VOpt):
            return VBool(And(Not(a.isnone), self.equals(a.val, b).t))
        if isinstance(b, VOpt):
            return self.equals(b, a)
        if isinstance(a, VConst) and isinstance(b, VConst):
            return TRUE if a.obj == b.obj else FALSE
        if isinstance(a, VObj) and isinstance(b, VObj):
            h = self.e.eq_hooks.get(a.cls + ".eq")
            if h:
                return h(self, a, b)
            return self.is_same(a, b)
        h = self.e.eq_hooks.get(f"{a.sort}=={b.sort}")
        if h:
            return h(self, a, b)
        if a.sort != b.sort and isinstance(a, (VInt, VStr, VBool)) and isinstance(b, (VInt, VStr, VBool)):
            return FALSE
        raise OutOfSubset(f"== on {a.sort},{b.sort}")

    def contains(self, container: V, item: V) -> VBool:
        if isinstance(container, VStr) and isinstance(item, VStr):
            return VBool(app("str.contains", container.t, item.t))
        if isinstance(container, (VTuple, VList)):
            return VBool(Or(*[self.equals(x, item).t for x in container.items]))
        h = self.e.intrinsics.get("in:" + (container.cls if isinstance(container, VObj) else container.sort))
        if h:
            return h(self, container, item)
        raise OutOfSubset(f"`in` on {container.sort}")

    def e_Attribute(self, n: ast.Attribute) -> V:
        o = self.eval(n.value)
        ctx = self.ctx
        if isinstance(o, VOpt):
            if ctx.branch(VBool(o.isnone), "attr-of-None"):
                raise PyRaise("AttributeError")
            o = o.val
        if isinstance(o, VNone):
            raise PyRaise("AttributeError")
        if isinstance(o, VObj):
            if n.attr in ctx.heap[o.ref]:
                return ctx.get_field(o, n.attr)
            h = self.e.attr_hooks.get(f"{o.cls}.{n.attr}")
            if h:
                return h(self, o)
            return VConst(("method", o, n.attr))
        if isinstance(o, VConst):
            obj = o.obj
            if isinstance(obj, dict) and n.attr in obj:  # module/class stub: dict of members
                m = obj[n.attr]
                return m if isinstance(m, V) else VConst(m)
            if isinstance(obj, tuple) and obj and obj[0] == "class":
                # ("class", name, {attrs}) : class attributes / static & class methods
                if n.attr in obj[2]:
                    m = obj[2][n.attr]
                    return m if isinstance(m, V) else VConst(m)
                return VConst(("method", o, n.attr))
            return VConst(("method", o, n.attr))
        h = self.e.attr_hooks.get(f"{o.sort}.{n.attr}")
        if h:
            return h(self, o)
        return VConst(("method", o, n.attr))

    def e_Subscript(self, n: ast.Subscript) -> V:
        o = self.eval(n.value)
        if isinstance(n.slice, ast.Slice):
            lo = self.eval(n.slice.lower) if n.slice.lower is not None else None
            hi = self.eval(n.slice.upper) if n.slice.upper is not None else None
            if n.slice.step is not None:
                raise OutOfSubset("slice step")
            return self.slice(o, lo, hi)
        if isinstance(o, VConst) and isinstance(o.obj, tuple) and o.obj and o.obj[0] == "py" and isinstance(o.obj[1], dict):
            k = self.eval(n.slice)
            try:
                key = smt.smt_str(k.t) if isinstance(k, VStr) else None
            except AssertionError:
                key = None
            if key is None:
                raise OutOfSubset("configuration dict indexed by a symbolic key")
            if key not in o.obj[1]:
                raise PyRaise("KeyError")
            return lift_py(o.obj[1][key])
        if isinstance(o, VConst) and not (isinstance(o.obj, tuple) and o.obj and o.obj[0] in ("regex",)):
            return VConst(("type-expression", ast.unparse(n)))  # typing.X[...] : a type, only ever handed to cast()
        k = self.eval(n.slice)
        if isinstance(o, VOpt):
            if self.ctx.branch(VBool(o.isnone), "subscript-of-None"):
                raise PyRaise("TypeError")
            o = o.val
        if isinstance(o, (VTuple, VList)) and isinstance(k, VInt):
            try:
                i = smt.smt_int(k.t)
            except ValueError:
                raise OutOfSubset("symbolic index into a tuple")
            if not -len(o.items) <= i < len(o.items):
                raise PyRaise("IndexError")
            return o.items[i]
        if isinstance(o, VStr) and isinstance(k, VInt):
            ln = app("str.len", o.t)
            idx = Ite(app("<", k.t, "0"), app("+", ln, k.t), k.t)
            if self.ctx.branch(VBool(Or(app("<", idx, "0"), app(">=", idx, ln))), "str-index-oob"):
                raise PyRaise("IndexError")
            return VStr(app("str.at", o.t, idx))
        h = self.e.subscript_hooks.get(o.cls if isinstance(o, VObj) else o.sort)
        if h:
            return h(self, o, k)
        raise OutOfSubset(f"subscript on {o.sort}")

    def slice(self, o: V, lo: typing.Optional[V], hi: typing.Optional[V]) -> V:
        if isinstance(o, VStr):
            ln = app("str.len", o.t)
            ks = getattr(self.ctx, "known_suffix", {})
            if hi is None and isinstance(lo, VInt) and (o.t, lo.t) in ks:
                # o == prefix ++ rest with len(prefix) == lo was established by an intrinsic (e.g. a regex match): o[lo:] is rest
                return VStr(ks[(o.t, lo.t)])

            def norm(v: typing.Optional[V], default: str) -> str:
                if v is None or isinstance(v, VNone):
                    return default
                if not isinstance(v, VInt):
                    raise OutOfSubset("slice bound")
                # Python clamps: negative -> len+v (clamped at 0); > len -> len
                t = v.t
                neg = Ite(app("<", app("+", ln, t), "0"), "0", app("+", ln, t))
                pos = Ite(app(">", t, ln), ln, t)
                try:
                    k = smt.smt_int(t)
                    return neg if k < 0 else pos
                except ValueError:
                    if self.ctx.implied(And(app("<=", "0", t), app("<=", t, ln))):
                        return t
                    return Ite(app("<", t, "0"), neg, pos)

            a = norm(lo, "0")
            b = norm(hi, ln)
            return VStr(app("str.substr", o.t, a, Ite(app(">", b, a), app("-", b, a), "0")))
        if isinstance(o, (VTuple, VList)):
            def lit(v, d):
                if v is None:
                    return d
                return smt.smt_int(v.t)
            items = o.items[lit(lo, None):lit(hi, None)]
            return type(o)(items)
        h = self.e.subscript_hooks.get("slice:" + o.sort)
        if h:
            return h(self, o, lo, hi)
        raise OutOfSubset(f"slice of {o.sort}")

    def e_Lambda(self, n: ast.Lambda) -> V:
        return VConst(("lambda", n, dict(self.ctx.env)))

    def _dotted(self, n: ast.expr) -> str:
        if isinstance(n, ast.Name):
            return n.id
        if isinstance(n, ast.Attribute):
            return self._dotted(n.value) + "." + n.attr
        raise OutOfSubset("callee expression")

    def e_Call(self, n: ast.Call) -> V:
        ctx = self.ctx
        # spec-only functions get unevaluated AST access (old, forall, implies ...)
        if isinstance(n.func, ast.Name) and n.func.id in self.e.spec_fns and n.func.id not in ctx.env:
            return self.e.spec_fns[n.func.id](self, n)
        if isinstance(n.func, ast.Attribute) and self.e.mutators:
            recv = self.eval(n.func.value)
            key = f"{recv.cls if isinstance(recv, VObj) else recv.sort}.{n.func.attr}"
            if key in self.e.mutators:
                # in-place mutation of a value-sorted container: compute the new value, rebind the receiver
                margs = [self.eval(a) for a in n.args]
                new = self.e.mutators[key](self, recv, *margs)
                self._note_mutation(n.func.value)
                tgt = copy.copy(n.func.value)
                tgt.ctx = ast.Store()  # type: ignore
                self.assign(tgt, new)
                return NONE
        f = self.eval(n.func)
        args = []
        for a in n.args:
            if isinstance(a, ast.Starred):
                v = self.eval(a.value)
                if isinstance(v, (VList, VTuple)):
                    args.extend(v.items)
                    continue
                if isinstance(v, VConst) and v.obj == "passthrough":
                    continue  # *args handed on untouched to an abstract callee
                if isinstance(v, VData):
                    self.e.used(f"*{ast.unparse(a.value)}: an opaque sequence handed to a callee whose contract does not depend on it")
                    continue
                raise OutOfSubset("star-args")
            args.append(self.eval(a))
        kwargs = {}
        for k in n.keywords:
            if k.arg is None:
                v = self.eval(k.value)
                if isinstance(v, VConst) and v.obj == "passthrough":
                    continue
                raise OutOfSubset("**kwargs")
            kwargs[k.arg] = self.eval(k.value)
        self._call_node = n
        return self.call(f, args, kwargs, n)

    def call(self, f: V, args: typing.List[V], kwargs: typing.Dict[str, V], n: typing.Optional[ast.AST] = None) -> V:
        if not isinstance(f, VConst):
            if isinstance(f, VObj):
                return self.call(VConst(("method", f, "__call__")), args, kwargs, n)
            raise OutOfSubset(f"call of {f.sort}")
        obj = f.obj
        if callable(obj):
            return obj(self, *args, **kwargs)
        if isinstance(obj, tuple):
            tag = obj[0]
            if tag == "fn":
                return self.e.intrinsics[obj[1]](self, *args, **kwargs)
            if tag == "exc":
                return VConst(("exception", obj[1]))
            if tag == "contract":
                return self.call_contract(obj[1], args, kwargs)
            if tag == "method":
                recv, name = obj[1], obj[2]
                if isinstance(recv, VObj):
                    key = f"{recv.cls}.{name}"
                    if key in self.e.intrinsics:
                        return self.e.intrinsics[key](self, recv, *args, **kwargs)
                    if key in self.e.contracts:
                        return self.call_contract(key, [recv] + args, kwargs)
                    raise OutOfSubset(f"no contract for method {key}")
                if isinstance(recv, VConst) and isinstance(recv.obj, tuple) and recv.obj[0] == "class":
                    key = f"{recv.obj[1]}.{name}"
                    if key in self.e.intrinsics:
                        return self.e.intrinsics[key](self, *args, **kwargs)
                    if key in self.e.contracts:
                        c = self.e.contracts[key]
                        if not isinstance(c, Contract):
                            return self.call_contract(key, args, kwargs)
                        first = list(c.params)[0] if c.params else None
                        if first in ("cls", "self"):
                            return self.call_contract(key, [recv] + args, kwargs)
                        return self.call_contract(key, args, kwargs)
                    raise OutOfSubset(f"no contract for {key}")
                key = f"{recv.sort}.{name}"
                if key in self.e.intrinsics:
                    return self.e.intrinsics[key](self, recv, *args, **kwargs)
                raise OutOfSubset(f"method {key}")
            if tag == "lambda":
                lam, env = obj[1], obj[2]
                saved = ctx_env = self.ctx.env
                self.ctx.env = dict(env)
                self.ctx.env.update(saved if self.ctx.spec_mode else {})
                for p, a in zip(lam.args.args, args):
                    self.ctx.env[p.arg] = a
                try:
                    return self.eval(lam.body)
                finally:
                    self.ctx.env = ctx_env
            if tag == "class":
                key = f"{obj[1]}.__new__"
                if key in self.e.intrinsics:
                    return self.e.intrinsics[key](self, *args, **kwargs)
                raise OutOfSubset(f"constructor of {obj[1]}")
        raise OutOfSubset(f"call of {obj!r}")

    # modular call -----------------------------------------------------------------------------
    def call_contract(self, key: str, args: typing.List[V], kwargs: typing.Dict[str, V]) -> V:
        c = self.e.contracts[key]
        if not isinstance(c, Contract) and callable(c):
            # a family of contracts indexed by a literal of the call's state (e.g. cursor position mod 8): the selector picks
            # the instance; every instance is verified on its own against the same function
            c = c(self, args, kwargs)
        ctx = self.ctx
        call_node = getattr(self, "_call_node", None)
        n_implicit = 0  # receiver prepended by the method-call path
        n = ctx.call_ordinals.get(key, 0)
        ctx.call_ordinals[key] = n + 1
        names = list(c.params)
        env: typing.Dict[str, V] = {}
        for nm, a in zip(names, args):
            env[nm] = a
        for k, v in kwargs.items():
            if k not in names:
                raise OutOfSubset(f"call {key}: unexpected kwarg {k}")
            env[k] = v
        for nm in names:
            if nm not in env:
                spec = c.params[nm]
                if isinstance(spec, SConst) or isinstance(spec, V):
                    env[nm] = ctx.make(spec, nm)
                else:
                    raise OutOfSubset(f"call {key}: missing argument {nm}")
        # value-sorted parameters the callee mutates in place: written back to the caller's variable afterwards
        writeback: typing.Dict[str, ast.expr] = {}
        value_mods = [m for m in c.modifies if "." not in m]
        if value_mods:
            if call_node is None or not isinstance(call_node, ast.Call):
                raise OutOfSubset(f"call {key}: in-place mutation of an argument needs a syntactic call site")
            n_implicit = len(args) - len(call_node.args)
            for m in value_mods:
                i = names.index(m) - n_implicit
                if 0 <= i < len(call_node.args):
                    writeback[m] = call_node.args[i]
                else:
                    kw = [k for k in call_node.keywords if k.arg == m]
                    if not kw:
                        raise OutOfSubset(f"call {key}: cannot locate the argument for modified parameter {m}")
                    writeback[m] = kw[0].value
        saved_env = ctx.env
        saved_old = (ctx.old_env, ctx.old_heap, getattr(ctx, "old_ghost", {}))
        ctx.env = dict(env)
        for name, b in c.bindings.items():
            ctx.env.setdefault(name, b if isinstance(b, V) else VConst(b))
        try:
            if c.decreases and c is ctx.contract:
                d_new = self.spec_eval(c.decreases)
                d_old = self._in_old_outer(saved_env, lambda: self.spec_eval(c.decreases))
                ctx.prove(And(app("<=", "0", d_new.t), app("<", d_new.t, d_old.t)), "variant", f"recursion@call{n}")  # type: ignore
            for i, r in enumerate(c.requires):
                ctx.prove(self.spec_bool(r), "pre", f"{key}.requires{i}@call{n}")
                ctx.assume(self.spec_bool(r))
            # snapshot pre-state of the callee for old()
            ctx.old_env = dict(ctx.env)
            ctx.old_heap = {k: dict(v) for k, v in ctx.heap.items()}
            ctx.old_ghost = dict(ctx.ghost)  # type: ignore
            # exceptional exits
            for rs in c.raises:
                w = VBool(self.spec_bool(rs.when))
                if not rs.must:
                    w = VBool(And(w.t, ctx.fresh("Bool", f"{key}.may_raise")))
                if ctx.branch(w, f"{key}.raises.{rs.exc}"):
                    self._apply_modifies(c)
                    for _, text in rs.ensures:
                        ctx.assume(self.spec_bool(text))
                    raise PyRaise(rs.exc)
            self._apply_modifies(c)
            result = ctx.make(c.result, f"{key}.result", model=False) if c.result is not None else NONE
            for _, text in c.ensures:
                ctx.assume(self.spec_bool(text, {"result": result}))
            if getattr(c, "after_call", None):
                c.after_call(self)  # bookkeeping of the caller's symbolic state; may not add facts
            if writeback:
                new_vals = {m: ctx.env[m] for m in writeback}
                ctx.env = saved_env
                for m, target in writeback.items():
                    if isinstance(target, ast.Name):
                        ctx.env[target.id] = new_vals[m]
                        self._note_mutation(target)
                    else:
                        self.e.used(f"call {key} in {ctx.fname}: the in-place effect on the temporary argument `{ast.unparse(target)}` is "
                                    "observed only through the returned value (value semantics; aliasing is the freshness check's business)")
            return result
        finally:
            ctx.env = saved_env
            ctx.old_env, ctx.old_heap, ctx.old_ghost = saved_old  # type: ignore

    def _in_old_outer(self, caller_env: typing.Dict[str, V], f: typing.Callable[[], typing.Any]) -> typing.Any:
        """Evaluate in the *verified function's* entry state (its old_env), used for the recursion variant."""
        ctx = self.ctx
        env = ctx.env
        ctx.env = dict(self._outer_old_env)
        for name, b in ctx.contract.bindings.items():
            ctx.env.setdefault(name, b if isinstance(b, V) else VConst(b))
        try:
            return f()
        finally:
            ctx.env = env

    def _apply_modifies(self, c: Contract) -> None:
        ctx = self.ctx
        for loc in c.modifies:
            if loc.startswith("ghost."):
                g = loc[6:]
                ctx.ghost[g] = self._fresh_like(ctx.ghost[g], loc)
                continue
            if "." not in loc:
                ctx.env[loc] = self._fresh_like(ctx.env[loc], loc)
                continue
            base, *mid, fld = loc.split(".")
            o = ctx.env.get(base)
            for m in mid:  # a location inside an object held by a field: self._buf.arr
                o = ctx.get_field(o, m) if isinstance(o, VObj) else None
            if not isinstance(o, VObj):
                raise OutOfSubset(f"modifies {loc}: {base} is not an object")
            ctx.set_field(o, fld, self._fresh_like(ctx.get_field(o, fld), loc))

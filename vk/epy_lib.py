"""
Built-in semantics and *assumed library contracts* for E-PY.

Everything registered with `engine.used(...)` when exercised ends up in the evidence's assumption list.
"""
from __future__ import annotations

import ast
import typing

from . import smt
from .smt import And, Eq, Implies, Ite, Not, Or, app, int_lit, str_lit
from .epy import (FALSE, NONE, TRUE, Interp, OutOfSubset, PyRaise, V, VBool, VConst, VData, VInt, VList, VNone,
                  VObj, VOpt, VSeq, VStr, VTuple)
from . import pyre


def install(e) -> None:  # e: Engine
    I = e.intrinsics
    S = e.spec_fns

    # ---- spec-only vocabulary (gets the unevaluated call node) ------------------------------
    def s_old(it: Interp, n: ast.Call) -> V:
        return it._in_old(lambda: it.eval(n.args[0]))

    def s_implies(it: Interp, n: ast.Call) -> V:
        a = it.ctx.truthy(it.eval(n.args[0])).t
        b = it.ctx.truthy(it.eval(n.args[1])).t
        return VBool(Implies(a, b))

    def s_ite(it: Interp, n: ast.Call) -> V:
        c = it.ctx.truthy(it.eval(n.args[0])).t
        a, b = it.eval(n.args[1]), it.eval(n.args[2])
        if type(a) is not type(b) or not hasattr(a, "t"):
            raise OutOfSubset("ite over non-scalar")
        r = type(a).__new__(type(a))
        r.__dict__.update(a.__dict__)
        r.t = Ite(c, a.t, b.t)  # type: ignore
        return r

    def s_forall(it: Interp, n: ast.Call) -> V:
        # forall("Sort", lambda x: body) -- a genuine quantifier, use sparingly
        sort = n.args[0].value  # type: ignore
        lam = n.args[1]
        assert isinstance(lam, ast.Lambda)
        names = [a.arg for a in lam.args.args]
        binders = []
        saved = dict(it.ctx.env)
        for i, nm in enumerate(names):
            srt = sort.split(",")[i] if "," in sort else sort
            it.ctx.counter += 1
            bn = f"|q.{nm}!{it.ctx.counter}|"
            binders.append(f"({bn} {srt})")
            it.ctx.env[nm] = _mk(srt, bn)
        try:
            body = it.ctx.truthy(it.eval(lam.body)).t
        finally:
            it.ctx.env = saved
        return VBool(f"(forall ({' '.join(binders)}) {body})")

    def s_in_re(it: Interp, n: ast.Call) -> V:
        s = it.eval(n.args[0])
        pat = n.args[1].value  # type: ignore
        assert isinstance(s, VStr)
        return VBool(app("str.in_re", s.t, pyre.to_reglan(pat)))

    def s_smt(it: Interp, n: ast.Call) -> V:
        # smt("Sort", "template {0} {1}", a, b): escape hatch to write an SMT term in a contract
        sort = n.args[0].value  # type: ignore
        tmpl = n.args[1].value  # type: ignore
        args = [it.eval(a) for a in n.args[2:]]
        term = tmpl.format(*[a.t for a in args])  # type: ignore
        return _mk(sort, term)

    S.update({"old": s_old, "implies": s_implies, "ite": s_ite, "forall": s_forall, "in_re": s_in_re, "smt": s_smt})

    # ---- builtins ---------------------------------------------------------------------------
    def b_len(it: Interp, v: V) -> V:
        if isinstance(v, VStr):
            return VInt(app("str.len", v.t))
        if isinstance(v, (VTuple, VList)):
            return VInt(str(len(v.items)))
        if isinstance(v, VSeq):
            return VInt(app("seq.len", v.t))
        h = it.e.intrinsics.get("len:" + (v.cls if isinstance(v, VObj) else v.sort))
        if h:
            return h(it, v)
        raise OutOfSubset(f"len of {v.sort}")

    def b_isinstance(it: Interp, v: V, cls: V) -> V:
        names = _class_names(cls)
        return VBool(Or(*[_isinstance1(it, v, nm).t for nm in names]))

    def b_int(it: Interp, v: V) -> V:
        if isinstance(v, VInt):
            return v
        if isinstance(v, VBool):
            return VInt(Ite(v.t, "1", "0"))
        h = it.e.intrinsics.get("int:" + v.sort)
        if h:
            return h(it, v)
        raise OutOfSubset(f"int() of {v.sort}")

    def b_bool(it: Interp, v: V) -> V:
        return it.ctx.truthy(v)

    def b_str(it: Interp, v: V) -> V:
        if isinstance(v, VStr):
            return v
        h = it.e.intrinsics.get("str:" + (v.cls if isinstance(v, VObj) else v.sort))
        if h:
            return h(it, v)
        raise OutOfSubset(f"str() of {v.sort}")

    def b_min(it: Interp, a: V, b: V) -> V:
        if isinstance(a, VInt) and isinstance(b, VInt):
            return VInt(Ite(app("<=", a.t, b.t), a.t, b.t))
        raise OutOfSubset("min")

    def b_max(it: Interp, a: V, b: V) -> V:
        if isinstance(a, VInt) and isinstance(b, VInt):
            return VInt(Ite(app(">=", a.t, b.t), a.t, b.t))
        raise OutOfSubset("max")

    def b_cast(it: Interp, _t: V, v: V) -> V:
        return v

    def b_tuple(it: Interp, v: V) -> V:
        if isinstance(v, (VTuple, VList)):
            return VTuple(list(v.items))
        raise OutOfSubset("tuple()")

    def b_abs(it: Interp, a: V) -> V:
        if isinstance(a, VInt):
            return VInt(Ite(app(">=", a.t, "0"), a.t, app("-", a.t)))
        raise OutOfSubset("abs")

    I.update({"len": b_len, "isinstance": b_isinstance, "int": b_int, "bool": b_bool, "str": b_str, "min": b_min,
              "max": b_max, "cast": b_cast, "tuple": b_tuple, "abs": b_abs})

    # ---- str methods -------------------------------------------------------------------------
    def str_startswith(it: Interp, s: VStr, p: V) -> V:
        if isinstance(p, VStr):
            return VBool(app("str.prefixof", p.t, s.t))
        if isinstance(p, VTuple):
            return VBool(Or(*[app("str.prefixof", x.t, s.t) for x in p.items]))  # type: ignore
        raise OutOfSubset("startswith arg")

    def str_endswith(it: Interp, s: VStr, p: V) -> V:
        if isinstance(p, VStr):
            return VBool(app("str.suffixof", p.t, s.t))
        if isinstance(p, VTuple):
            return VBool(Or(*[app("str.suffixof", x.t, s.t) for x in p.items]))  # type: ignore
        raise OutOfSubset("endswith arg")

    I["String.startswith"] = str_startswith
    I["String.endswith"] = str_endswith

    # ---- io.StringIO -------------------------------------------------------------------------
    def sio_new(it: Interp, *a: V) -> V:
        it.e.used("io.StringIO: write appends, getvalue returns the concatenation of all writes (assumed)")
        init = a[0].t if a else '""'  # type: ignore
        return it.ctx.new_obj("StringIO", {"buf": VStr(init)})

    def sio_write(it: Interp, o: VObj, s: V) -> V:
        assert isinstance(s, VStr)
        cur = it.ctx.get_field(o, "buf")
        it.ctx.set_field(o, "buf", it.named(VStr(app("str.++", cur.t, s.t)), "buf"))  # type: ignore
        return VInt(app("str.len", s.t))

    def sio_getvalue(it: Interp, o: VObj) -> V:
        return it.ctx.get_field(o, "buf")

    I["StringIO.__new__"] = sio_new
    I["StringIO.write"] = sio_write
    I["StringIO.getvalue"] = sio_getvalue
    I["TextIO.write"] = sio_write

    # ---- re ----------------------------------------------------------------------------------
    def re_compile(it: Interp, p: V, flags: V = None) -> V:  # type: ignore
        if not isinstance(p, VStr):
            raise OutOfSubset("re.compile of a non-literal")
        try:
            text = smt.smt_str(p.t)
        except AssertionError:
            raise OutOfSubset("re.compile of a symbolic pattern")
        fl = flags.obj if isinstance(flags, VConst) else 0
        if not isinstance(fl, int):
            raise OutOfSubset(f"re.compile flags {fl!r}")
        return VConst(("regex", text, fl))

    def regex_search(it: Interp, rx: V, s: V, pos: V = None) -> V:  # type: ignore
        assert isinstance(rx, VConst) and rx.obj[0] == "regex"
        return pyre.search_contract(it, rx.obj[1], rx.obj[2], s, pos)

    I["Const.search"] = lambda it, rx, *a, **k: regex_search(it, rx, *a, **k)
    I["Match.start"] = lambda it, m, *a: it.ctx.get_field(m, "_start")
    I["Match.end"] = lambda it, m, *a: it.ctx.get_field(m, "_end")
    e.re_stub = {"compile": ("pyfn", None), "MULTILINE": "MULTILINE"}

    def mk_re_module() -> V:
        import re as _re
        d = {"compile": VConst(re_compile)}
        for nm in ("MULTILINE", "M", "ASCII", "A", "IGNORECASE", "I", "DOTALL", "S", "UNICODE", "U", "VERBOSE", "X"):
            d[nm] = VConst(int(getattr(_re, nm)))
        return VConst(d)

    def flag_or(it: Interp, a: V, b: V) -> V:
        return VConst(a.obj | b.obj)  # type: ignore

    e.binop_hooks["Const.BitOr"] = flag_or

    def mk_io_module() -> V:
        return VConst({"StringIO": VConst(("class", "StringIO", {}))})

    e.std_bindings = {"re": mk_re_module(), "io": mk_io_module(), "typing": VConst({"cast": VConst(b_cast)}),
                      "cast": VConst(b_cast)}


def _mk(sort: str, term: str) -> V:
    if sort == "Int":
        return VInt(term)
    if sort == "Bool":
        return VBool(term)
    if sort == "String":
        return VStr(term)
    if sort.startswith("(Seq "):
        return VSeq(sort[5:-1], term)
    return VData(sort, term)


def _class_names(cls: V) -> typing.List[str]:
    if isinstance(cls, VTuple):
        out = []
        for x in cls.items:
            out.extend(_class_names(x))
        return out
    if isinstance(cls, VConst):
        o = cls.obj
        if isinstance(o, tuple) and o[0] in ("class", "exc", "fn"):
            return [o[1]]
        if isinstance(o, str):
            return [o]
    raise OutOfSubset(f"isinstance class {cls}")


def _isinstance1(it: Interp, v: V, name: str) -> VBool:
    h = it.e.isinstance_hooks.get(f"{v.cls if isinstance(v, VObj) else v.sort}:{name}")
    if h:
        return h(it, v)
    if isinstance(v, VObj):
        sup = it.e.isinstance_hooks.get("supers:" + v.cls)
        if v.cls == name or (sup and name in sup):  # type: ignore
            return TRUE
        return FALSE
    table = {"Int": {"int"}, "Bool": {"bool", "int"}, "String": {"str"}, "None": set(), "Tuple": {"tuple"},
             "List": {"list"}}
    if v.sort in table:
        return TRUE if name in table[v.sort] else FALSE
    raise OutOfSubset(f"isinstance({v.sort}, {name})")

"""
Python `re` patterns -> SMT-LIB RegLan, and assumed contracts for search/match on pattern shapes.

Patterns are parsed with CPython's own regex parser (re._parser), so the translation starts from the
real pattern text found in the working tree.  Unsupported constructs raise OutOfSubset.
"""
from __future__ import annotations

import functools
import re
import sys
import typing

try:
    import re._parser as sre_parse  # type: ignore
    import re._constants as sre_c  # type: ignore
except ImportError:  # pragma: no cover
    import sre_parse  # type: ignore
    import sre_constants as sre_c  # type: ignore

from .smt import And, Eq, Implies, Ite, Not, Or, app, str_lit

MAXCP = 0x2FFFF  # SMT-LIB string alphabet


class RegexOutOfSubset(Exception):
    pass


def _ranges(pred: typing.Callable[[str], bool]) -> typing.List[typing.Tuple[int, int]]:
    out = []
    start = None
    for cp in range(0, MAXCP + 1):
        ok = pred(chr(cp))
        if ok and start is None:
            start = cp
        elif not ok and start is not None:
            out.append((start, cp - 1))
            start = None
    if start is not None:
        out.append((start, MAXCP))
    return out


@functools.lru_cache(None)
def category_ranges(cat: str, ascii_only: bool = False) -> typing.Tuple[typing.Tuple[int, int], ...]:
    """Code-point ranges (<= U+2FFFF) of a regex category as CPython's `re` defines it for str patterns."""
    rx = {"space": r"\s", "digit": r"\d", "word": r"\w"}[cat]
    c = re.compile(rx, re.ASCII if ascii_only else 0)
    return tuple(_ranges(lambda ch: c.fullmatch(ch) is not None))


def _cp(c: int) -> str:
    return str_lit(chr(c))


def ranges_to_re(rs: typing.Iterable[typing.Tuple[int, int]]) -> str:
    parts = []
    for lo, hi in rs:
        if lo == hi:
            parts.append(app("str.to_re", _cp(lo)))
        else:
            parts.append(app("re.range", _cp(lo), _cp(hi)))
    if not parts:
        return "re.none"
    if len(parts) == 1:
        return parts[0]
    return app("re.union", *parts)


def _merge(rs: typing.List[typing.Tuple[int, int]]) -> typing.List[typing.Tuple[int, int]]:
    rs = sorted(rs)
    out: typing.List[typing.Tuple[int, int]] = []
    for lo, hi in rs:
        if out and lo <= out[-1][1] + 1:
            out[-1] = (out[-1][0], max(out[-1][1], hi))
        else:
            out.append((lo, hi))
    return out


def _negate(rs: typing.List[typing.Tuple[int, int]]) -> typing.List[typing.Tuple[int, int]]:
    out = []
    prev = 0
    for lo, hi in _merge(rs):
        if lo > prev:
            out.append((prev, lo - 1))
        prev = hi + 1
    if prev <= MAXCP:
        out.append((prev, MAXCP))
    return out


def class_ranges(items, ignorecase: bool = False, ascii_only: bool = False) -> typing.List[typing.Tuple[int, int]]:
    rs: typing.List[typing.Tuple[int, int]] = []
    neg = False
    for op, av in items:
        if op is sre_c.NEGATE:
            neg = True
        elif op is sre_c.LITERAL:
            rs.append((av, av))
        elif op is sre_c.RANGE:
            rs.append((av[0], av[1]))
        elif op is sre_c.CATEGORY:
            name = str(av).lower()
            for cat in ("space", "digit", "word"):
                if name.endswith("category_" + cat):
                    rs.extend(category_ranges(cat, ascii_only))
                    break
                if name.endswith("category_not_" + cat):
                    rs.extend(_negate(list(category_ranges(cat, ascii_only))))
                    break
            else:
                raise RegexOutOfSubset(f"category {av}")
        else:
            raise RegexOutOfSubset(f"class item {op}")
    if ignorecase:
        extra = []
        for lo, hi in rs:
            if hi - lo > 2000:
                continue
            for cp in range(lo, hi + 1):
                ch = chr(cp)
                for alt in (ch.lower(), ch.upper()):
                    if len(alt) == 1:
                        extra.append((ord(alt), ord(alt)))
        rs.extend(extra)
    rs = _merge(rs)
    return _negate(rs) if neg else rs


def parse(pattern: str, flags: int = 0):
    return sre_parse.parse(pattern, flags)


def _seq_to_re(seq, flags: int, at_start: bool, at_end: bool) -> str:
    """RegLan of the language matched by a sequence when it must span the whole string (fullmatch semantics).
    `^` is accepted only as first item, `$` only as last item (then the language is for match-to-end, and a trailing
    newline alternative is added by the caller through `dollar`)."""
    items = list(seq)
    parts = []
    ic = bool(flags & re.IGNORECASE)
    asc = bool(flags & re.ASCII)
    for idx, (op, av) in enumerate(items):
        if op is sre_c.LITERAL:
            if ic:
                parts.append(ranges_to_re(class_ranges([(sre_c.LITERAL, av)], True)))
            else:
                parts.append(app("str.to_re", _cp(av)))
        elif op is sre_c.NOT_LITERAL:
            parts.append(ranges_to_re(_negate([(av, av)])))
        elif op is sre_c.ANY:
            if flags & re.DOTALL:
                parts.append("re.allchar")
            else:
                parts.append(ranges_to_re(_negate([(10, 10)])))
        elif op is sre_c.IN:
            parts.append(ranges_to_re(class_ranges(av, ic, asc)))
        elif op is sre_c.BRANCH:
            # an anchor at the start (end) of an alternative that itself starts (ends) the pattern is the pattern's anchor
            st, en = at_start and idx == 0, at_end and idx == len(items) - 1
            parts.append(app("re.union", *[_seq_to_re(b, flags, st, en) for b in av[1]]) if len(av[1]) > 1 else _seq_to_re(av[1][0], flags, st, en))
        elif op is sre_c.SUBPATTERN:
            parts.append(_seq_to_re(av[3], flags, at_start and idx == 0, at_end and idx == len(items) - 1))
        elif op in (sre_c.MAX_REPEAT, sre_c.MIN_REPEAT):
            lo, hi, sub = av
            r = _seq_to_re(sub, flags, False, False)
            if hi is sre_c.MAXREPEAT:
                if lo == 0:
                    parts.append(app("re.*", r))
                elif lo == 1:
                    parts.append(app("re.+", r))
                else:
                    parts.append(app("re.++", app(f"(_ re.^ {lo})", r), app("re.*", r)))
            else:
                if lo == 0 and hi == 1:
                    parts.append(app("re.opt", r))
                else:
                    parts.append(app(f"(_ re.loop {lo} {hi})", r))
        elif op is sre_c.AT:
            name = str(av).lower()
            if name.endswith("at_beginning") or name.endswith("at_beginning_string"):
                if idx != 0 or not at_start:
                    raise RegexOutOfSubset("^ not at pattern start")
            elif name.endswith("at_end") or name.endswith("at_end_string"):
                if idx != len(items) - 1 or not at_end:
                    raise RegexOutOfSubset("$ not at pattern end")
                if name.endswith("at_end"):
                    parts.append(app("re.opt", app("str.to_re", str_lit("\n"))))
            else:
                raise RegexOutOfSubset(f"anchor {av}")
        else:
            raise RegexOutOfSubset(f"regex op {op}")
    if not parts:
        return app("str.to_re", '""')
    if len(parts) == 1:
        return parts[0]
    return app("re.++", *parts)


@functools.lru_cache(None)
def to_reglan(pattern: str, flags: int = 0) -> str:
    """Language of strings s with re.fullmatch(pattern, s) (anchors allowed at the ends only)."""
    return _seq_to_re(parse(pattern, flags), flags, True, True)


def ends_with_dollar(pattern: str, flags: int = 0) -> bool:
    items = list(parse(pattern, flags))
    return bool(items) and items[-1][0] is sre_c.AT and str(items[-1][1]).lower().endswith("at_end")


def starts_with_caret(pattern: str, flags: int = 0) -> bool:
    items = list(parse(pattern, flags))
    return bool(items) and items[0][0] is sre_c.AT and "at_beginning" in str(items[0][1]).lower()


# ------------------------------------------------------------------------------------------------
# assumed contracts for Pattern.search on two pattern shapes
# ------------------------------------------------------------------------------------------------


def _literal_alternation(pattern: str, flags: int) -> typing.Optional[typing.List[str]]:
    items = list(parse(pattern, flags & ~re.MULTILINE))

    def lit(seq) -> typing.Optional[str]:
        s = ""
        for op, av in seq:
            if op is not sre_c.LITERAL:
                return None
            s += chr(av)
        return s

    if len(items) == 1 and items[0][0] is sre_c.BRANCH:
        alts = [lit(b) for b in items[0][1][1]]
        if all(a for a in alts):
            return alts  # type: ignore
    # the parser factors common prefixes/suffixes and single chars into IN sets: handle the flat literal case
    one = lit(items)
    if one:
        return [one]
    return None


def _class_plus_dollar(pattern: str, flags: int):
    items = list(parse(pattern, flags))
    if len(items) == 2 and items[0][0] is sre_c.MAX_REPEAT and items[1][0] is sre_c.AT and str(items[1][1]).lower().endswith("at_end"):
        lo, hi, sub = items[0][1]
        sub = list(sub)
        if lo == 1 and hi is sre_c.MAXREPEAT and len(sub) == 1 and sub[0][0] is sre_c.IN and not flags & re.MULTILINE:
            return class_ranges(sub[0][1], bool(flags & re.IGNORECASE), bool(flags & re.ASCII))
    return None


def search_contract(it, pattern: str, flags, s, pos):
    """Assumed contract of `re.compile(pattern, flags).search(s, pos)`.

    Supported shapes (anything else: OutOfSubset):
      * alternation of literal strings  L1|...|Lk : leftmost occurrence, first alternative that matches there;
      * C+$ for a character class C containing "\\n" : the maximal class-only suffix, None if it is empty.
    """
    from .epy import OutOfSubset, VBool, VInt, VNone, VObj, VOpt, VStr

    fl = int(flags or 0)
    ctx = it.ctx
    if not isinstance(s, VStr):
        raise OutOfSubset("search subject")
    ln = app("str.len", s.t)
    alts = None
    try:
        alts = _literal_alternation(pattern, fl)
        cls = None if alts else _class_plus_dollar(pattern, fl)
    except RegexOutOfSubset as ex:
        raise OutOfSubset(str(ex))
    if alts:
        it.e.used(f"re.search for literal alternation {pattern!r}: leftmost occurrence, first alternative matching there (assumed; spot-checked against CPython)")
        if pos is None or isinstance(pos, VNone):
            p = "0"
        else:
            assert isinstance(pos, VInt)
            # CPython clamps pos to [0, len]
            if ctx.implied(And(app("<=", "0", pos.t), app("<=", pos.t, ln))):
                p = pos.t
            else:
                p = Ite(app("<", pos.t, "0"), "0", Ite(app(">", pos.t, ln), ln, pos.t))
        isnone = ctx.fresh("Bool", "m.isnone")
        start = ctx.fresh("Int", "m.start")
        end = ctx.fresh("Int", "m.end")
        ctx.assume(literal_alternation_rel(alts, s.t, p, isnone, start, end))
        m = ctx.new_obj("Match", {"_start": VInt(start), "_end": VInt(end)})
        return VOpt(isnone, m)
    if cls is not None:
        if pos is not None and not isinstance(pos, VNone):
            raise OutOfSubset("search with pos on C+$")
        has_nl = any(lo <= 10 <= hi for lo, hi in cls)
        if not has_nl:
            raise OutOfSubset("C+$ with newline outside C")
        it.e.used(f"re.search for {pattern!r}: start of the maximal suffix made of class characters, None if that suffix is empty (assumed; spot-checked against CPython)")
        C = ranges_to_re(cls)
        isnone = ctx.fresh("Bool", "m.isnone")
        start = ctx.fresh("Int", "m.start")
        last_in = app("str.in_re", app("str.at", s.t, app("-", ln, "1")), C)
        ctx.assume(Eq(isnone, Or(Eq(ln, "0"), Not(last_in))))
        ctx.assume(Implies(Not(isnone), And(
            app("<=", "0", start), app("<", start, ln),
            app("str.in_re", app("str.substr", s.t, start, app("-", ln, start)), app("re.+", C)),
            Or(Eq(start, "0"), Not(app("str.in_re", app("str.at", s.t, app("-", start, "1")), C))))))
        m = ctx.new_obj("Match", {"_start": VInt(start), "_end": VInt(ln)})
        return VOpt(isnone, m)
    raise OutOfSubset(f"re.search contract for pattern {pattern!r}")


def literal_alternation_rel(alts: typing.List[str], s: str, p: str, isnone: str, start: str, end: str) -> str:
    """The assumed contract of search for L1|..|Lk as a relation between subject, clamped pos and result."""
    idx = [app("str.indexof", s, str_lit(a), p) for a in alts]
    taken = None
    for a in reversed(alts):
        here = Eq(app("str.substr", s, start, str(len(a))), str_lit(a))
        e_a = app("+", start, str(len(a)))
        taken = e_a if taken is None else Ite(here, e_a, taken)
    return And(
        # None iff no alternative occurs at or after p
        Eq(isnone, And(*[app("<", i, "0") for i in idx])),
        # start is the minimum of the non-negative occurrence indexes
        Implies(Not(isnone), And(
            Or(*[Eq(start, i) for i in idx]),
            app(">=", start, p),
            *[Implies(app(">=", i, "0"), app("<=", start, i)) for i in idx])),
        # at `start`, the first alternative (in pattern order) that matches there is taken
        Implies(Not(isnone), Eq(end, taken)))  # type: ignore


# native reference implementations of the same contracts, for spot-checks against CPython ------------


def native_literal_alternation_search(alts: typing.List[str], s: str, pos: int):
    pos = max(0, min(pos, len(s)))
    idx = [s.find(a, pos) for a in alts]
    live = [i for i in idx if i >= 0]
    if not live:
        return None
    start = min(live)
    for a in alts:
        if s[start:start + len(a)] == a:
            return (start, start + len(a))
    raise AssertionError


def native_class_plus_dollar(cls, s: str):
    def inc(ch):
        return any(lo <= ord(ch) <= hi for lo, hi in cls)

    if not s or not inc(s[-1]):
        return None
    i = len(s)
    while i > 0 and inc(s[i - 1]):
        i -= 1
    return (i, len(s))


# ------------------------------------------------------------------------------------------------
# languages of match() / search() success, and the single-class-run shape used by the re.sub contract
# ------------------------------------------------------------------------------------------------
ALL = "re.all"


def _ends_anchored(seq) -> typing.Optional[bool]:
    """True: every way through the sequence ends with `$`; False: none does; None: mixed (not supported)"""
    items = list(seq)
    if not items:
        return False
    op, av = items[-1]
    if op is sre_c.AT and str(av).lower().endswith(("at_end", "at_end_string")):
        return True
    if op is sre_c.BRANCH:
        r = {_ends_anchored(b) for b in av[1]}
        return r.pop() if len(r) == 1 else None
    if op is sre_c.SUBPATTERN:
        return _ends_anchored(av[3])
    return False


def _starts_anchored(seq) -> typing.Optional[bool]:
    items = list(seq)
    if not items:
        return False
    op, av = items[0]
    if op is sre_c.AT and "at_beginning" in str(av).lower():
        return True
    if op is sre_c.BRANCH:
        r = {_starts_anchored(b) for b in av[1]}
        return r.pop() if len(r) == 1 else None
    if op is sre_c.SUBPATTERN:
        return _starts_anchored(av[3])
    return False


@functools.lru_cache(None)
def match_lang(pattern: str, flags: int = 0) -> str:
    """{ s | re.compile(pattern, flags).match(s) is not None }  (no MULTILINE)"""
    if flags & re.MULTILINE:
        raise RegexOutOfSubset("MULTILINE")
    seq = parse(pattern, flags)
    body = _seq_to_re(seq, flags, True, True)
    en = _ends_anchored(seq)
    if en is None:
        raise RegexOutOfSubset("alternatives that differ in their end anchor")
    return body if en else app("re.++", body, ALL)


@functools.lru_cache(None)
def search_lang(pattern: str, flags: int = 0) -> str:
    """{ s | re.compile(pattern, flags).search(s) is not None }"""
    st = _starts_anchored(parse(pattern, flags))
    if st is None:
        raise RegexOutOfSubset("alternatives that differ in their start anchor")
    m = match_lang(pattern, flags)
    return m if st else app("re.++", ALL, m)


def single_class_run(pattern: str, flags: int = 0):
    """[^] C{lo,hi} [$] (optionally inside one capturing group) -> (anchored_start, ranges of C, lo, hi|None, anchored_end)"""
    items = list(parse(pattern, flags))
    while len(items) == 1 and items[0][0] is sre_c.SUBPATTERN:
        items = list(items[0][1][3])
    st = en = False
    if items and items[0][0] is sre_c.AT and "at_beginning" in str(items[0][1]).lower():
        st, items = True, items[1:]
    if items and items[-1][0] is sre_c.AT and str(items[-1][1]).lower().endswith("at_end"):
        en, items = True, items[:-1]
    if len(items) != 1:
        return None
    op, av = items[0]
    lo, hi = 1, 1
    if op in (sre_c.MAX_REPEAT,):
        lo, hi, sub = av
        sub = list(sub)
        if len(sub) != 1:
            return None
        op, av = sub[0]
        hi = None if hi is sre_c.MAXREPEAT else hi
    if op is sre_c.IN:
        rs = class_ranges(av, bool(flags & re.IGNORECASE), bool(flags & re.ASCII))
    elif op is sre_c.LITERAL:
        rs = [(av, av)]
    else:
        return None
    return st, _merge(list(rs)), lo, hi, en

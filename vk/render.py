"""Render code with the working tree's nunavut (imported from $VK_REPO/src via PYTHONPATH)."""
import pathlib
import typing


def language_context(lang: str, options: typing.Optional[dict] = None, extension: typing.Optional[str] = None):
    from nunavut.lang import LanguageContextBuilder

    b = LanguageContextBuilder(include_experimental_languages=True).set_target_language(lang)
    if options:
        b.set_target_language_configuration_override("options", dict(options))
    if extension:
        b.set_target_language_extension(extension)
    return b.create()


def render_support(lang: str, outdir: pathlib.Path, options: typing.Optional[dict] = None) -> typing.List[pathlib.Path]:
    from nunavut._namespace import build_namespace_tree
    from nunavut.jinja import SupportGenerator

    ctx = language_context(lang, options)
    ns = build_namespace_tree([], "", str(outdir), ctx)
    return list(SupportGenerator(ns).generate_all())


def render_types(lang: str, root_ns_dir: pathlib.Path, outdir: pathlib.Path, options: typing.Optional[dict] = None,
                 lookup: typing.Optional[typing.List[pathlib.Path]] = None, support: bool = True) -> typing.List[pathlib.Path]:
    import pydsdl
    from nunavut._namespace import build_namespace_tree
    from nunavut.jinja import DSDLCodeGenerator, SupportGenerator

    ctx = language_context(lang, options)
    types = pydsdl.read_namespace(str(root_ns_dir), [str(p) for p in (lookup or [])], allow_unregulated_fixed_port_id=True)
    ns = build_namespace_tree(types, str(root_ns_dir), str(outdir), ctx)
    out = list(DSDLCodeGenerator(ns).generate_all())
    if support:
        out += list(SupportGenerator(ns).generate_all())
    return out

"""
Verdicts, replay files, known findings and evidence.

Exit codes: 0 all obligations discharged (known findings aside); 1 violation; 2 undecided; 3 checker crash.
"""
from __future__ import annotations

import json
import os
import pathlib
import re
import sys
import time
import traceback
import typing

from . import smt

ROOT = pathlib.Path(__file__).resolve().parent.parent
REPO = pathlib.Path(os.environ.get("VK_REPO", "/repo"))
KNOWN = ROOT / "known_findings.txt"


def load_known() -> typing.List[typing.Dict[str, str]]:
    out = []
    if KNOWN.exists():
        for line in KNOWN.read_text().splitlines():
            line = line.strip()
            if not line.startswith("finding:"):
                continue
            m = re.match(r"finding:\s+property=(\S+)\s+obligation=(\S+)\s+witness=(.*)$", line)
            if m:
                out.append({"property": m.group(1), "obligation": m.group(2), "witness": m.group(3).strip()})
    return out


class Failure(typing.NamedTuple):
    obligation: str  # name
    kind: str
    detail: str  # human text: what fails
    replay: typing.Dict[str, typing.Any]  # content of the replay file
    reproduced: bool  # failing input replayed on the real code


class Run:
    def __init__(self, prop: str, level: str, checker_cmd: str, tier: typing.Optional[str] = None):
        self.prop = prop
        self.level = level
        self.tier = tier or os.environ.get("VERIF_TIER", "quick")
        if self.tier not in ("quick", "thorough"):
            self.tier = "quick"
        try:
            self.seed = int(os.environ.get("VERIF_SEED", "0"))
        except ValueError:
            self.seed = 0
        self.checker_cmd = checker_cmd
        self.t0 = time.time()
        self.results: typing.List[smt.Result] = []
        self.extra_obligations: typing.List[typing.Dict[str, typing.Any]] = []  # non-SMT (clang, lean, E-FX)
        self.failures: typing.List[Failure] = []
        self.undecided: typing.List[str] = []
        self.functions: typing.List[str] = []
        self.assumptions: typing.List[str] = []
        self.trusted: typing.List[str] = []
        self.bounded: typing.List[typing.Dict[str, typing.Any]] = []
        self.notes: typing.Dict[str, typing.Any] = {}
        self.samples: typing.List[typing.Any] = []
        self.explanation = ""

    # -- recording ---------------------------------------------------------------------------
    def add_function(self, *names: str) -> None:
        for n in names:
            if n not in self.functions:
                self.functions.append(n)

    def assume(self, *texts: str) -> None:
        for t in texts:
            if t not in self.assumptions:
                self.assumptions.append(t)

    def trust(self, *texts: str) -> None:
        for t in texts:
            if t not in self.trusted:
                self.trusted.append(t)

    def add_results(self, results: typing.Iterable[smt.Result]) -> None:
        self.results.extend(results)

    def add_check(self, name: str, ok: typing.Optional[bool], backend: str, seconds: float = 0.0, detail: str = "") -> None:
        """A non-SMT obligation (clang constant evaluator, lean, E-FX decision procedure).
        ok=None means undecided."""
        self.extra_obligations.append(
            {"name": name, "ok": ok, "backend": backend, "seconds": round(seconds, 3), "detail": detail}
        )

    def fail(self, f: Failure) -> None:
        self.failures.append(f)

    def undecide(self, what: str) -> None:
        self.undecided.append(what)

    def add_bounded(self, name: str, bound: str, evaluations: int, ok: bool, detail: str = "", failed_obligations: typing.Optional[typing.Sequence[str]] = None) -> None:
        """`failed_obligations`: names of the obligations the stand-in's counterexamples are reported under (run.fail); when
        every one of them is a listed known finding the stand-in does not raise an alarm of its own."""
        if not ok and failed_obligations:
            known = [k for k in load_known() if k["property"] == self.prop]
            if all(any(k["obligation"] == n or (k["obligation"].endswith("*") and n.startswith(k["obligation"][:-1])) for k in known) for n in failed_obligations):
                ok = True
                detail = "only listed known findings: " + detail
        self.bounded.append({"name": name, "bound": bound, "evaluations": evaluations, "ok": ok, "detail": detail})

    # -- finish ------------------------------------------------------------------------------
    def finish(self) -> int:
        known = [k for k in load_known() if k["property"] == self.prop]
        n_ob = len(self.results) + len(self.extra_obligations)
        n_ok = sum(1 for r in self.results if r.ok) + sum(1 for e in self.extra_obligations if e["ok"])
        by_backend: typing.Dict[str, int] = {}
        secs: typing.Dict[str, float] = {}
        for r in self.results:
            if r.ok:
                by_backend[r.backend] = by_backend.get(r.backend, 0) + 1
            secs[r.backend] = secs.get(r.backend, 0.0) + r.seconds
        for e in self.extra_obligations:
            if e["ok"]:
                by_backend[e["backend"]] = by_backend.get(e["backend"], 0) + 1
            secs[e["backend"]] = secs.get(e["backend"], 0.0) + e["seconds"]

        # undecided SMT results that nobody turned into failures
        failed_names = {f.obligation for f in self.failures}
        for r in self.results:
            if not r.ok and r.ob.name not in failed_names and r.ob.name.split("/p")[0] not in failed_names:
                if r.status == "unknown":
                    self.undecided.append(f"{r.ob.name}: unknown on {r.backend} {r.tried}")
                elif r.ob.name.split("/p")[0] in failed_names:
                    pass
                else:
                    # sat on a proof obligation without a handler: still a failed obligation
                    failed_names.add(r.ob.name.split("/p")[0])
                    self.failures.append(
                        Failure(
                            r.ob.name.split("/p")[0],
                            r.ob.kind,
                            f"obligation not discharged ({r.status} on {r.backend})",
                            {"obligation": r.ob.name, "solver_output": r.raw[:4000], "smt2": r.ob.smt2()},
                            False,
                        )
                    )
        for e in self.extra_obligations:
            if e["ok"] is None:
                self.undecided.append(f"{e['name']}: undecided ({e['detail'][:200]})")
            elif e["ok"] is False and e["name"] not in {f.obligation for f in self.failures}:
                self.failures.append(Failure(e["name"], "check", e["detail"], {"obligation": e["name"], "detail": e["detail"]}, False))

        violations = 0
        known_hits = 0
        lines = []
        replay_dir = pathlib.Path(os.environ.get("VK_REPLAY_DIR", str(ROOT / "replay")))
        for f in self.failures:
            hit = None
            for k in known:
                if k["obligation"] == f.obligation or (k["obligation"].endswith("*") and f.obligation.startswith(k["obligation"][:-1])):
                    hit = k
                    break
            if hit is not None:
                known_hits += 1
                lines.append(f"KNOWN-FINDING: property={self.prop} obligation={f.obligation} {hit['witness']}")
                continue
            violations += 1
            replay_dir.mkdir(exist_ok=True)
            safe = re.sub(r"[^A-Za-z0-9_.-]+", "_", f.obligation)[:120]
            path = replay_dir / f"{self.prop}_{safe}.json"
            body = dict(f.replay)
            body.update({"property": self.prop, "obligation": f.obligation, "kind": f.kind, "detail": f.detail,
                         "reproduced_on_real_code": f.reproduced})
            path.write_text(json.dumps(body, indent=1, default=str))
            tail = "" if f.reproduced else " no-failing-input-found"
            lines.append(f"VIOLATION property={self.prop} replay={path} obligation={f.obligation} :: {f.detail[:300]}{tail}")

        bounded_bad = [b for b in self.bounded if not b["ok"]]
        wall = time.time() - self.t0
        samples = self.samples[:]
        if not samples:
            for r in self.results[:3]:
                samples.append({"obligation": r.ob.name, "kind": r.ob.kind, "status": r.status, "backend": r.backend,
                                "seconds": round(r.seconds, 3), "smt2_head": r.ob.smt2(False)[-700:]})
            for e in self.extra_obligations[:3]:
                samples.append(e)
        # obligations that failed and are listed as known findings are not part of what this run claims to hold: they are
        # counted separately, so that obligations == discharged exactly when everything claimed was discharged
        def _known(name: str) -> bool:
            return any(k["obligation"] == name or (k["obligation"].endswith("*") and name.startswith(k["obligation"][:-1])) for k in known)

        n_known_ob = sum(1 for e in self.extra_obligations if e["ok"] is False and _known(e["name"])) + \
            sum(1 for r in self.results if not r.ok and (_known(r.ob.name) or _known(r.ob.name.split("/p")[0])))
        n_ob -= n_known_ob
        cov: typing.Dict[str, typing.Any] = {
            "obligations": n_ob,
            "discharged": n_ok,
            "obligations_failed_and_listed_as_known_findings": n_known_ob,
            "checker_cmd": self.checker_cmd,
            "trusted_base": self.trusted,
            "functions_under_contract": self.functions,
            "discharged_by_backend": by_backend,
            "solver_seconds_by_backend": {k: round(v, 2) for k, v in secs.items()},
            "obligation_kinds": _count(r.ob.kind for r in self.results),
            "slowest": sorted(((round(r.seconds, 2), r.ob.name, r.backend) for r in self.results), reverse=True)[:5],
            "bounded_standins_not_counted_as_proved": self.bounded,
            "undecided": self.undecided[:50],
            "known_findings_hit": known_hits,
            "samples": samples,
            "explanation": self.explanation,
        }
        cov.update(self.notes)
        if not isinstance(cov.get("programs", 0), int):
            # EVIDENCE schema: coverage.programs is a count; the names go to program_names
            names = cov.pop("programs")
            cov["program_names"] = names
            cov["programs"] = len({n for v in (names.values() if isinstance(names, dict) else [names]) for n in v})
        ev = {
            "property_id": self.prop,
            "tier": self.tier,
            "seed": self.seed,
            "level": self.level,
            "coverage": cov,
            "assumptions": self.assumptions,
            "wall_s": round(wall, 2),
            "violations": violations,
        }
        evdir = pathlib.Path(os.environ.get("VK_EVIDENCE_DIR", str(ROOT / "evidence")))
        evdir.mkdir(exist_ok=True, parents=True)
        (evdir / f"{self.prop}.json").write_text(json.dumps(ev, indent=1, default=str) + "\n")

        shown = 0
        for ln in lines:
            if ln.startswith("VIOLATION"):
                shown += 1
                if shown > 12:
                    continue
            print(ln)
        if shown > 12:
            print(f"[{self.prop}] ... and {shown - 12} more violated obligations (all listed in the evidence/replay directory)")
        print(f"[{self.prop}] obligations={n_ob} discharged={n_ok} violations={violations} known={known_hits} "
              f"undecided={len(self.undecided)} bounded={len(self.bounded)} wall={wall:.1f}s")
        if violations:
            return 1
        if bounded_bad:
            # a bounded stand-in that found a counterexample is a real failing input
            for b in bounded_bad:
                replay_dir.mkdir(exist_ok=True, parents=True)
                path = replay_dir / f"{self.prop}_bounded_{re.sub(r'[^A-Za-z0-9_.-]+', '_', b['name'])[:80]}.json"
                path.write_text(json.dumps({"property": self.prop, "bounded_standin": b}, indent=1, default=str))
                print(f"VIOLATION property={self.prop} replay={path} obligation=bounded:{b['name'][:80]} :: {b['detail'][:300]}")
            return 1
        if n_ob == 0:
            print(f"[{self.prop}] UNDECIDED: zero obligations generated (vacuity guard)")
            return 2
        if self.undecided:
            for u in self.undecided[:20]:
                print(f"[{self.prop}] UNDECIDED: {u}")
            return 2
        return 0


def _count(it: typing.Iterable[str]) -> typing.Dict[str, int]:
    d: typing.Dict[str, int] = {}
    for x in it:
        d[x] = d.get(x, 0) + 1
    return d


def main_wrapper(fn: typing.Callable[[], int]) -> typing.NoReturn:
    try:
        rc = fn()
    except SystemExit:
        raise
    except Exception:  # checker crash is never a violation
        traceback.print_exc()
        print("CHECKER-CRASH (exit 3): this is not a verdict about the property")
        sys.exit(3)
    sys.exit(rc)

"""
SMT plumbing: obligations are SMT-LIB 2 texts handed to solver CLIs.

An Obligation is "assumptions |= goal"; it is discharged when `assumptions and not goal` is unsat
on any back end.  `sat` (with a model) is a failed obligation, `unknown`/timeout on every back end is
undecided.  Nothing here ever maps unknown/timeout/crash to a violation.
"""
from __future__ import annotations

import concurrent.futures
import dataclasses
import os
import re
import subprocess
import tempfile
import time
import typing

BACKENDS = {
    # name: (argv prefix, per-query timeout flag builder)
    "z3": lambda t: ["/usr/bin/z3", "-smt2", f"-T:{t}"],
    "z3-new": lambda t: ["z3-new", "-smt2", f"-T:{t}"],
    "cvc5": lambda t: ["/usr/bin/cvc5", "--lang=smt2", "--strings-exp", f"--tlimit={t * 1000}", "--produce-models"],
    "cvc5-fmf": lambda t: [
        "/usr/bin/cvc5",
        "--lang=smt2",
        "--strings-exp",
        "--strings-fmf",
        f"--tlimit={t * 1000}",
        "--produce-models",
    ],
}

DEFAULT_ORDER = {
    "arith": ["z3", "z3-new", "cvc5"],
    "string": ["cvc5", "z3-new", "z3"],
    "regex": ["z3-new", "cvc5", "z3"],
    "datatype": ["z3", "z3-new"],
    "fp": ["z3", "z3-new", "cvc5"],
}


class Lazy:
    """A prelude item included only if `name` occurs in the query (see Obligation.sliced_decls)."""

    def __init__(self, name: str, *texts: str):
        self.name = name
        self.texts = list(texts)


@dataclasses.dataclass
class Obligation:
    name: str  # "<function>#<kind>@<where>"
    kind: str  # post | pre | inv-init | inv-pres | variant | assert | frame | lemma | cover | safety
    decls: typing.List[str]  # SMT-LIB declarations (declare-const / declare-fun / define-fun / declare-datatypes)
    assumptions: typing.List[str]  # Bool terms
    goal: str  # Bool term
    theory: str = "arith"
    logic: typing.Optional[str] = None
    model_vars: typing.List[str] = dataclasses.field(default_factory=list)
    expect: str = "unsat"  # "unsat" for proof obligations; "sat" for covers / vacuity guards
    timeout: int = 30
    meta: typing.Dict[str, typing.Any] = dataclasses.field(default_factory=dict)
    function: str = ""
    # subsets of `assumptions`: an `unsat` answer on a weaker hypothesis set is still a proof (sat there is ignored)
    alt_assumptions: typing.List[typing.List[str]] = dataclasses.field(default_factory=list)

    def sliced_decls(self, body: typing.List[str]) -> typing.List[str]:
        """Declarations may be `Lazy` prelude items: a function symbol with its defining axioms, included only when the
        symbol occurs in the query (a conservative extension that is not mentioned cannot change the answer, and
        leaving out its quantified axioms lets the solver answer `sat` with a model instead of `unknown`)."""
        lazies = [d for d in self.decls if isinstance(d, Lazy)]
        if not lazies:
            return list(self.decls)  # type: ignore
        text = " ".join(body) + " " + " ".join(d for d in self.decls if not isinstance(d, Lazy))
        needed: typing.Set[str] = set()
        changed = True
        while changed:
            changed = False
            for lz in lazies:
                if lz.name in needed:
                    continue
                if re.search(r"[( ]" + re.escape(lz.name) + r"[) ]", text):
                    needed.add(lz.name)
                    text += " " + " ".join(lz.texts)
                    changed = True
        out = []
        for d in self.decls:
            if isinstance(d, Lazy):
                if d.name in needed:
                    out.extend(d.texts)
            else:
                out.append(d)
        return out

    def smt2(self, with_model: bool = True, assumptions: typing.Optional[typing.List[str]] = None) -> str:
        out = []
        out.append(f"(set-logic {self.logic or 'ALL'})")
        out.append("(set-option :produce-models true)")
        asm = self.assumptions if assumptions is None else assumptions
        out.extend(self.sliced_decls(list(asm) + [self.goal]))
        for a in asm:
            out.append(f"(assert {a})")
        if self.expect == "unsat":
            out.append(f"(assert (not {self.goal}))")
        else:
            out.append(f"(assert {self.goal})")
        out.append("(check-sat)")
        if with_model and self.model_vars:
            out.append("(get-value (" + " ".join(self.model_vars) + "))")
        return "\n".join(out) + "\n"


@dataclasses.dataclass
class Result:
    ob: Obligation
    status: str  # unsat | sat | unknown
    backend: str
    seconds: float
    model: typing.Dict[str, str]
    raw: str
    tried: typing.List[typing.Tuple[str, str, float]]

    @property
    def ok(self) -> bool:
        return self.status == self.ob.expect


def _run_one(text: str, backend: str, timeout: int) -> typing.Tuple[str, str, float]:
    argv = BACKENDS[backend](timeout)
    with tempfile.NamedTemporaryFile("w", suffix=".smt2", delete=False, dir=os.environ.get("VK_TMP", None)) as f:
        f.write(text)
        path = f.name
    t0 = time.time()
    try:
        p = subprocess.run(argv + [path], capture_output=True, text=True, timeout=timeout + 10)
        out = p.stdout + p.stderr
    except subprocess.TimeoutExpired:
        out = "timeout"
    finally:
        try:
            os.unlink(path)
        except OSError:
            pass
    dt = time.time() - t0
    first = out.strip().split("\n", 1)[0].strip() if out.strip() else ""
    if first in ("unsat", "sat"):
        return first, out, dt
    return "unknown", out, dt


def _status(out: str) -> str:
    for ln in out.splitlines():
        ln = ln.strip()
        if ln in ("sat", "unsat"):
            return ln
        if ln in ("unknown", "timeout"):
            return "unknown"
    return "unknown"


_tok = re.compile(r'"(?:[^"]|"")*"|[()]|[^\s()]+')


def parse_sexprs(text: str) -> list:
    toks = _tok.findall(text)
    pos = 0

    def rd():
        nonlocal pos
        t = toks[pos]
        pos += 1
        if t == "(":
            lst = []
            while toks[pos] != ")":
                lst.append(rd())
            pos += 1
            return lst
        return t

    out = []
    while pos < len(toks):
        if toks[pos] == ")":
            pos += 1
            continue
        out.append(rd())
    return out


def sexpr_to_str(e) -> str:
    if isinstance(e, list):
        return "(" + " ".join(sexpr_to_str(x) for x in e) + ")"
    return e


def parse_model(raw: str) -> typing.Dict[str, str]:
    # output: "sat\n((a 1) (b "x"))"
    lines = raw.splitlines()
    body = ""
    for i, ln in enumerate(lines):
        if ln.strip() == "sat":
            body = "\n".join(lines[i + 1:])
            break
    model = {}
    try:
        for top in parse_sexprs(body):
            if isinstance(top, list):
                for pair in top:
                    if isinstance(pair, list) and len(pair) == 2:
                        model[sexpr_to_str(pair[0])] = sexpr_to_str(pair[1])
    except Exception:  # pragma: no cover
        pass
    return model


def smt_int(v: str) -> int:
    v = v.strip()
    m = re.fullmatch(r"\(\s*-\s*(\d+)\s*\)", v)
    if m:
        return -int(m.group(1))
    if v.startswith("#x"):
        return int(v[2:], 16)
    if v.startswith("#b"):
        return int(v[2:], 2)
    return int(v)


def smt_str(v: str) -> str:
    """Decode an SMT-LIB string literal (with \\u{..} escapes) to a Python str."""
    v = v.strip()
    assert v.startswith('"') and v.endswith('"'), v
    s = v[1:-1].replace('""', '"')

    def rep(m):
        return chr(int(m.group(1) or m.group(2), 16))

    s = re.sub(r"\\u\{([0-9a-fA-F]+)\}|\\u([0-9a-fA-F]{4})", rep, s)
    # z3 legacy escapes
    s = re.sub(r"\\x([0-9a-fA-F]{2})", lambda m: chr(int(m.group(1), 16)), s)
    return s


def str_lit(s: str) -> str:
    out = []
    for ch in s:
        o = ord(ch)
        if ch == '"':
            out.append('""')
        elif 32 <= o < 127 and ch != "\\":
            out.append(ch)
        else:
            out.append("\\u{%x}" % o)
    return '"' + "".join(out) + '"'


def int_lit(n: int) -> str:
    return str(n) if n >= 0 else f"(- {-n})"


def solve(ob: Obligation, order: typing.Optional[typing.List[str]] = None) -> Result:
    """Race the back ends on one obligation; the first decisive answer (sat/unsat) wins, the rest are killed."""
    order = order or ob.meta.get("backends") or DEFAULT_ORDER.get(ob.theory, DEFAULT_ORDER["arith"])
    paths = []
    variants = [None] + [a for a in ob.alt_assumptions if ob.expect == "unsat"]
    for v in variants:
        with tempfile.NamedTemporaryFile("w", suffix=".smt2", delete=False, dir=os.environ.get("VK_TMP", None)) as f:
            f.write(ob.smt2(assumptions=v))
            paths.append(f.name)
    t0 = time.time()
    procs = []
    stagger = float(ob.meta.get("stagger", 1.0))  # give the preferred back end a head start
    tried: typing.List[typing.Tuple[str, str, float]] = []
    winner = None
    try:
        # launch order: preferred back end on the full query, then on the sliced variants, then the other back ends
        pending = [(order[0], 0)] + [(order[0], i) for i in range(1, len(paths))]
        for be in order[1:]:
            pending += [(be, i) for i in range(len(paths))]
        started = 0
        deadline = t0 + ob.timeout + 5 + stagger * len(pending)
        while True:
            now = time.time()
            if pending and (started == 0 or now - t0 >= stagger * started):
                be, vi = pending.pop(0)
                procs.append((be, vi, subprocess.Popen(BACKENDS[be](ob.timeout) + [paths[vi]], stdout=subprocess.PIPE,
                                                       stderr=subprocess.STDOUT, text=True), time.time()))
                started += 1
            alive = False
            for be, vi, p, ts in procs:
                if p.poll() is None:
                    alive = True
                    continue
                tag = be if vi == 0 else f"{be}/sliced{vi}"
                if any(t[0] == tag for t in tried):
                    continue
                out = p.stdout.read() if p.stdout else ""
                st = _status(out)
                if vi != 0 and st == "sat":
                    st = "unknown"  # a model of a weakened hypothesis set means nothing
                tried.append((tag, st, round(time.time() - ts, 3)))
                if st in ("sat", "unsat") and winner is None:
                    winner = (tag, st, out)
            if winner is not None:
                break
            if not alive and not pending:
                break
            if now > deadline:
                break
            time.sleep(0.01)
    finally:
        for be, vi, p, ts in procs:
            if p.poll() is None:
                p.kill()
                try:
                    p.wait(timeout=5)
                except Exception:
                    pass
        for path in paths:
            try:
                os.unlink(path)
            except OSError:
                pass
    dt = time.time() - t0
    if winner is not None:
        be, st, out = winner
        return Result(ob, st, be, dt, parse_model(out) if st == "sat" else {}, out, tried)
    return Result(ob, "unknown", ",".join(order), dt, {}, "", tried)


class Z3Session:
    """A persistent `z3 -in` process for the many small auxiliary queries of VC generation (feasibility pruning,
    implied-range checks).  Answers here only steer the encoding/path enumeration; they never discharge an obligation."""

    def __init__(self, binary: str = "/usr/bin/z3", timeout_ms: int = 3000):
        self.argv = [binary, "-in", "-smt2"]
        self.timeout_ms = timeout_ms
        self.p: typing.Optional[subprocess.Popen] = None
        self.queries = 0

    def _start(self) -> None:
        self.p = subprocess.Popen(self.argv, stdin=subprocess.PIPE, stdout=subprocess.PIPE, stderr=subprocess.STDOUT, text=True, bufsize=1)

    def check(self, decls: typing.List[str], asserts: typing.List[str]) -> str:
        if self.p is None or self.p.poll() is not None:
            self._start()
        assert self.p is not None and self.p.stdin is not None and self.p.stdout is not None
        self.queries += 1
        text = "(reset)\n(set-option :timeout %d)\n" % self.timeout_ms + "\n".join(decls) + "\n" + "\n".join(f"(assert {a})" for a in asserts) + "\n(check-sat)\n"
        if os.environ.get("VK_AUX_DUMP"):
            with open(os.environ["VK_AUX_DUMP"] + f"/q{self.queries}.smt2", "w") as f:
                f.write(text)
        try:
            self.p.stdin.write(text)
            self.p.stdin.flush()
            import select
            deadline = time.time() + self.timeout_ms / 1000.0 + 2.0
            while True:
                # hard deadline: the solver's own soft timeout is not honoured in every phase
                ready, _, _ = select.select([self.p.stdout], [], [], max(0.0, deadline - time.time()))
                if not ready:
                    self.close()
                    self.p = None
                    self.hard_timeouts = getattr(self, "hard_timeouts", 0) + 1
                    return "unknown"
                ln = self.p.stdout.readline()
                if not ln:
                    self.p = None
                    return "unknown"
                ln = ln.strip()
                if ln in ("sat", "unsat", "unknown", "timeout"):
                    return ln if ln in ("sat", "unsat") else "unknown"
                if ln.startswith("(error"):
                    return "unknown"
        except (BrokenPipeError, OSError):
            self.p = None
            return "unknown"

    def close(self) -> None:
        if self.p is not None and self.p.poll() is None:
            try:
                self.p.kill()
            except OSError:
                pass


def solve_all(obs: typing.List[Obligation], jobs: int = 0) -> typing.List[Result]:
    jobs = jobs or int(os.environ.get("VK_JOBS", "0")) or min(16, os.cpu_count() or 4)
    with concurrent.futures.ThreadPoolExecutor(max_workers=jobs) as ex:
        return list(ex.map(solve, obs))


def solve_all_batched(obs: typing.List[Obligation], jobs: int = 0) -> typing.List[Result]:
    """Obligations with IDENTICAL hypotheses (the postconditions checked at one exit of one path) are first tried as one
    query `hypotheses => goal_1 and ... and goal_n`: `unsat` discharges all of them (each result records the shared
    query); anything else falls back to one query per obligation, so verdicts and models are per obligation as before."""
    groups: typing.Dict[typing.Any, typing.List[int]] = {}
    for i, o in enumerate(obs):
        if o.expect != "unsat" or o.alt_assumptions:
            groups[("single", i)] = [i]
            continue
        key = (tuple(map(str, o.decls)), tuple(o.assumptions), o.theory, o.logic, o.function)
        groups.setdefault(key, []).append(i)
    combined: typing.List[Obligation] = []
    members: typing.List[typing.List[int]] = []
    for key, idxs in groups.items():
        if len(idxs) == 1:
            combined.append(obs[idxs[0]])
        else:
            first = obs[idxs[0]]
            combined.append(Obligation(first.name + f"+{len(idxs) - 1}", "batch", first.decls, first.assumptions, And(*[obs[i].goal for i in idxs]), first.theory, first.logic,
                                       [], "unsat", max(obs[i].timeout for i in idxs), {}, first.function))
        members.append(idxs)
    res1 = solve_all(combined, jobs)
    out: typing.List[typing.Optional[Result]] = [None] * len(obs)
    retry: typing.List[int] = []
    for r, idxs in zip(res1, members):
        if len(idxs) == 1:
            out[idxs[0]] = r if r.ob is obs[idxs[0]] else Result(obs[idxs[0]], r.status, r.backend, r.seconds, r.model, r.raw, r.tried)
        elif r.status == "unsat":
            for k, i in enumerate(idxs):
                out[i] = Result(obs[i], "unsat", r.backend + "/batched", r.seconds if k == 0 else 0.0, {}, r.raw, r.tried)
        else:
            retry.extend(idxs)
    if retry:
        for i, r in zip(retry, solve_all([obs[i] for i in retry], jobs)):
            out[i] = r
    return out  # type: ignore


# ---- tiny term builders -------------------------------------------------------------------------


def app(op: str, *args: str) -> str:
    return "(" + op + " " + " ".join(args) + ")"


def And(*xs: str) -> str:
    xs = [x for x in xs if x != "true"]
    if not xs:
        return "true"
    if len(xs) == 1:
        return xs[0]
    return app("and", *xs)


def Or(*xs: str) -> str:
    xs = [x for x in xs if x != "false"]
    if not xs:
        return "false"
    if len(xs) == 1:
        return xs[0]
    return app("or", *xs)


def Not(x: str) -> str:
    if x == "true":
        return "false"
    if x == "false":
        return "true"
    return app("not", x)


def Implies(a: str, b: str) -> str:
    return app("=>", a, b)


def Ite(c: str, a: str, b: str) -> str:
    return app("ite", c, a, b)


def Eq(a: str, b: str) -> str:
    return app("=", a, b)

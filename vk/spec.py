"""
SPEC: the Cyphal DSDL wire specification as a contract generator for generated C (E-C).

Written from the specification text over the pydsdl type model, independent of the nunavut templates:
little-endian bit order, fields in definition order, every field aligned to its type's alignment requirement with
zero padding, composites padded to 8 bits, saturated/truncated casts, variable arrays = length prefix + elements,
unions = tag + selected option, delimited (non-sealed) nested types = 32-bit byte-length header + payload, implicit
zero extension / truncation on decoding.

C binding: a pydsdl field is matched with the member of the generated struct by POSITION in the record (not by the
stropping code under test).
"""
from __future__ import annotations

import typing

import pydsdl

from . import ec
from .ec import (CT, And, CopyBitsMem, Eq, FVal, Implies, Ite, Mem, Not, Or, PVal, Val, app, bvlit, lit_of)

ERR_INVALID_ARGUMENT = 2
ERR_TOO_SMALL = 3
ERR_BAD_ARRAY_LENGTH = 10
ERR_BAD_UNION_TAG = 11
ERR_BAD_DELIMITER = 12


def c_type_name(t: pydsdl.CompositeType) -> str:
    if isinstance(t.parent_service, pydsdl.ServiceType) if hasattr(t, "parent_service") and t.parent_service is not None else False:
        base = t.parent_service.full_name.replace(".", "_") + f"_{t.short_name}"
    else:
        base = t.full_name.replace(".", "_")
    return f"{base}_{t.version.major}_{t.version.minor}"


def bit_length_max(t: pydsdl.SerializableType) -> int:
    return max(t.bit_length_set)


def is_fixed(t: pydsdl.SerializableType) -> bool:
    return len(t.bit_length_set) == 1 if hasattr(t.bit_length_set, "__len__") else t.bit_length_set.fixed_length


class ValueMem(Mem):
    """little-endian bytes of a bit-vector value of `width` bits (bytes beyond are zero)"""

    def __init__(self, v: str, width: int):
        self.v, self.width = v, width

    def read(self, idx: str) -> str:
        k = lit_of(idx)
        nb = (self.width + 7) // 8
        v = self.v if self.width % 8 == 0 else f"((_ zero_extend {8 * nb - self.width}) {self.v})"
        if k is not None:
            return f"((_ extract {8 * k + 7} {8 * k}) {v})" if 0 <= k < nb else "#x00"
        t = "#x00"
        for i in range(nb - 1, -1, -1):
            t = Ite(Eq(idx, str(i)), f"((_ extract {8 * i + 7} {8 * i}) {v})", t)
        return t


class Binder:
    """pydsdl composite -> members of the generated C struct (by position)."""

    def __init__(self, types: ec.Types):
        self.types = types

    def record(self, t: pydsdl.CompositeType) -> dict:
        nm = c_type_name(t)
        if nm not in self.types.records:
            raise ec.CBindingError(f"generated struct {nm} not found")
        return self.types.records[nm]

    def members(self, t: pydsdl.CompositeType) -> typing.List[typing.Tuple[pydsdl.Field, typing.Tuple[str, ...], CT]]:
        """[(field, member path below the object, C type of the member)] for the non-padding fields"""
        rec = self.record(t)
        fields = [f for f in t.fields_except_padding]
        out = []
        if isinstance(t.inner_type if isinstance(t, pydsdl.DelimitedType) else t, pydsdl.UnionType):
            anon_name, anon_ct = rec["fields"][0]
            urec = self.types.records[anon_ct.name]
            if len(urec["fields"]) != len(fields):
                raise ec.CBindingError(f"{c_type_name(t)}: {len(urec['fields'])} union members for {len(fields)} options")
            for f, (mn, mct) in zip(fields, urec["fields"]):
                out.append((f, (anon_name, mn), mct))
        else:
            cf = [x for x in rec["fields"] if x[0] != "_dummy_"]
            if len(cf) != len(fields):
                raise ec.CBindingError(f"{c_type_name(t)}: {len(cf)} struct members for {len(fields)} fields")
            for f, (mn, mct) in zip(fields, cf):
                out.append((f, (mn,), mct))
        return out


# the documented per-field capacity override of the C target (option enable_override_variable_array_capacity + a user
# definition of <type>_<field>_ARRAY_CAPACITY_): the reduced type has the same length prefix and a smaller valid range
CAP_OVERRIDE: typing.Dict[int, int] = {}  # id(pydsdl array type object of the field) -> user capacity


def vcap(dt) -> int:
    return CAP_OVERRIDE.get(id(dt), dt.capacity)


class Obj:
    """a (sub)object: root region id + member path"""

    def __init__(self, root: str, path: typing.Tuple[str, ...] = ()):
        self.root, self.path = root, path

    def sub(self, *p: str) -> "Obj":
        return Obj(self.root, self.path + tuple(p))


class WireSpec:
    def __init__(self, ex: ec.Exec, binder: Binder, mems: typing.Optional[typing.Dict[str, Mem]] = None):
        self.ex = ex
        self.b = binder
        self.mems = mems  # region -> memory to read object fields from (None: entry memories)

    # -- reading the C object ---------------------------------------------------------------------------------------
    def leaf_region(self, o: Obj, ct: CT) -> ec.Region:
        return self.ex.subregion(o.root, o.path, ct)

    def load(self, o: Obj, ct: CT, index: int = 0) -> typing.Any:
        """typed value of a leaf (or of element `index` of an array leaf), read from the reference memories"""
        el = ct.elem if ct.kind == "array" else ct
        r = self.leaf_region(o, ct)
        mem = (self.mems or {}).get(r.name) or self.ex.entry_mems.get(r.name, r.mem)
        n = el.size
        off = index * n
        bytes_ = [mem.read(str(off + i)) for i in range(n)]
        lits = [lit_of(b) if (b.startswith("(_ bv") or b.startswith("#x")) else None for b in bytes_]
        if all(x is not None for x in lits):
            bits = bvlit(sum(v << (8 * i) for i, v in enumerate(lits)), 8 * n)  # type: ignore
        else:
            bits = bytes_[0] if n == 1 else "(concat " + " ".join(reversed(bytes_)) + ")"
        if el.kind == "float":
            return FVal(el, bits)
        return Val(el, "B", bits)

    def bytes_mem(self, o: Obj, ct: CT) -> Mem:
        r = self.leaf_region(o, ct)
        return (self.mems or {}).get(r.name) or self.ex.entry_mems.get(r.name, r.mem)

    # -- casts ------------------------------------------------------------------------------------------------------
    def cast_bits(self, t: pydsdl.PrimitiveType, v: typing.Any) -> typing.Tuple[str, int]:
        """-> (bit-vector term of width w >= bit_length holding the wire value in its low bits, w)"""
        n = t.bit_length
        sat = t.cast_mode == pydsdl.PrimitiveType.CastMode.SATURATED
        if isinstance(t, pydsdl.BooleanType):
            return Ite(Not(Eq(v.t, bvlit(0, v.ct.width))), "#x01", "#x00"), 8
        if isinstance(t, pydsdl.UnsignedIntegerType):
            w = v.ct.width
            if sat and n < w:
                mx = bvlit((1 << n) - 1, w)
                return Ite(f"(bvugt {v.t} {mx})", mx, v.t), w
            return v.t, w
        if isinstance(t, pydsdl.SignedIntegerType):
            w = v.ct.width
            if n < w:  # signed integers are always saturated in DSDL
                lo, hi = bvlit(-(1 << (n - 1)), w), bvlit((1 << (n - 1)) - 1, w)
                return Ite(f"(bvslt {v.t} {lo})", lo, Ite(f"(bvsgt {v.t} {hi})", hi, v.t)), w
            return v.t, w
        if isinstance(t, pydsdl.FloatType):
            assert isinstance(v, FVal)
            if n == 16:
                x = v.t
                if sat:
                    # finite values are constrained to the finite half range; infinities and NaN pass through
                    mx, mn = ec.fp_const(65504.0, 32), ec.fp_const(-65504.0, 32)
                    finite = And(Not(f"(fp.isNaN {x})"), Not(f"(fp.isInfinite {x})"))
                    clamped = Ite(And(finite, f"(fp.lt {x} {mn})"), ec.fp_bits_const(-65504.0, 32), Ite(And(finite, f"(fp.gt {x} {mx})"), ec.fp_bits_const(65504.0, 32), v.bits))
                    return f"(pack16 {clamped})", 16
                return f"(pack16 {v.bits})", 16
            return v.bits, n  # float32 in a float, float64 in a double: the bit pattern itself
        raise ec.COutOfSubset(f"primitive {t}")

    # -- Enc ----------------------------------------------------------------------------------------------------------
    def write_bits(self, mem: Mem, off: str, n: int, value: str, width: int) -> Mem:
        return CopyBitsMem(mem, off, str(n), ValueMem(value, width), "0")

    def zero_bits(self, mem: Mem, off: str, n: str) -> Mem:
        return CopyBitsMem(mem, off, n, ec.ConstMem("#x00"), "0")

    def align(self, mem: Mem, off: int, alignment: int) -> typing.Tuple[Mem, int]:
        pad = (-off) % alignment
        if pad:
            mem = self.zero_bits(mem, str(self.base + off), str(pad))
        return mem, off + pad

    def enc(self, t: pydsdl.CompositeType, o: Obj, mem: Mem, base_bit: int, shape: "Shape") -> typing.Tuple[Mem, int, typing.Optional[int]]:
        """Serialise object o of type t at absolute bit `base_bit` of `mem`.
        -> (memory, bit length, error code or None).  `shape` fixes array counts and union tags (literal per path)."""
        self.base = base_bit
        return self._enc_composite(t, o, mem, 0, shape)

    def _enc_composite(self, t: pydsdl.CompositeType, o: Obj, mem: Mem, off: int, shape: "Shape") -> typing.Tuple[Mem, int, typing.Optional[int]]:
        inner = t.inner_type if isinstance(t, pydsdl.DelimitedType) else t
        members = self.b.members(t)
        if isinstance(inner, pydsdl.UnionType):
            tag_t = inner.tag_field_type
            tag = shape.get(o.path + ("_tag_",))
            if tag is None or tag >= len(members):
                return mem, off, ERR_BAD_UNION_TAG
            mem = self.write_bits(mem, str(self.base + off), tag_t.bit_length, bvlit(tag, 64), 64)
            off += tag_t.bit_length
            f, mpath, mct = members[tag]
            mem, off = self.align(mem, off, f.data_type.alignment_requirement)
            mem, off, err = self._enc_field(f.data_type, o.sub(*mpath), mct, mem, off, shape)
            if err is not None:
                return mem, off, err
        else:
            mi = iter(members)
            for f in inner.fields:
                mem, off = self.align(mem, off, f.data_type.alignment_requirement)
                if isinstance(f, pydsdl.PaddingField):
                    mem = self.zero_bits(mem, str(self.base + off), str(f.data_type.bit_length))
                    off += f.data_type.bit_length
                    continue
                ff, mpath, mct = next(mi)
                mem, off, err = self._enc_field(f.data_type, o.sub(*mpath), mct, mem, off, shape)
                if err is not None:
                    return mem, off, err
        mem, off = self.align(mem, off, 8)
        return mem, off, None

    def _enc_field(self, dt: pydsdl.SerializableType, o: Obj, mct: CT, mem: Mem, off: int, shape: "Shape") -> typing.Tuple[Mem, int, typing.Optional[int]]:
        if isinstance(dt, pydsdl.PrimitiveType):
            v = self.load(o, mct)
            bits, w = self.cast_bits(dt, v)
            return self.write_bits(mem, str(self.base + off), dt.bit_length, bits, w), off + dt.bit_length, None
        if isinstance(dt, pydsdl.ArrayType):
            return self._enc_array(dt, o, mct, mem, off, shape)
        if isinstance(dt, pydsdl.CompositeType):
            return self._enc_nested(dt, o, mem, off, shape)
        raise ec.COutOfSubset(f"field type {dt}")

    def _enc_nested(self, dt: pydsdl.CompositeType, o: Obj, mem: Mem, off: int, shape: "Shape") -> typing.Tuple[Mem, int, typing.Optional[int]]:
        if isinstance(dt, pydsdl.DelimitedType):
            hdr = off
            off += 32
            m2, end, err = self._enc_composite(dt, o, mem, off, shape)
            if err is not None:
                return m2, end, err
            nbytes = (end - off) // 8
            m2 = self.write_bits(m2, str(self.base + hdr), 32, bvlit(nbytes, 32), 32)
            return m2, end, None
        return self._enc_composite(dt, o, mem, off, shape)

    def _enc_array(self, dt: pydsdl.ArrayType, o: Obj, mct: CT, mem: Mem, off: int, shape: "Shape") -> typing.Tuple[Mem, int, typing.Optional[int]]:
        et = dt.element_type
        rec = None
        if isinstance(dt, pydsdl.VariableLengthArrayType):
            cnt = shape.get(o.path + ("count",))
            if cnt is None or cnt > vcap(dt):
                return mem, off, ERR_BAD_ARRAY_LENGTH
            lt = dt.length_field_type
            mem = self.write_bits(mem, str(self.base + off), lt.bit_length, bvlit(cnt, 64), 64)
            off += lt.bit_length
            rec = self.b.types.records[mct.name]
            el_name, el_ct = rec["fields"][0]
            elems_o = o.sub(el_name)
            n = cnt
        else:
            el_ct = mct
            elems_o = o
            n = dt.capacity
        mem, off = self.align(mem, off, et.alignment_requirement)
        if isinstance(et, pydsdl.BooleanType):
            # booleans are bit-packed in the C object exactly as on the wire
            src = self.bytes_mem(elems_o, el_ct)
            return CopyBitsMem(mem, str(self.base + off), str(n), src, "0"), off + n, None
        for i in range(n):
            mem, off = self.align(mem, off, et.alignment_requirement)
            if isinstance(et, pydsdl.PrimitiveType):
                v = self.load(elems_o, el_ct, i)
                bits, w = self.cast_bits(et, v)
                mem = self.write_bits(mem, str(self.base + off), et.bit_length, bits, w)
                off += et.bit_length
            elif isinstance(et, pydsdl.CompositeType):
                mem, off, err = self._enc_nested(et, elems_o.sub(str(i)), mem, off, shape)
                if err is not None:
                    return mem, off, err
            else:
                raise ec.COutOfSubset(f"array element {et}")
        return mem, off, None


class Shape(dict):
    """member path -> literal array count / union tag (None or absent: invalid/unconstrained)"""


def shape_locations(b: Binder, t: pydsdl.CompositeType, path: typing.Tuple[str, ...] = ()):
    """yield (path, kind, limit, subtree-function) in serialization order; used to enumerate shapes"""
    inner = t.inner_type if isinstance(t, pydsdl.DelimitedType) else t
    members = b.members(t)
    if isinstance(inner, pydsdl.UnionType):
        yield (path + ("_tag_",), "tag", len(members), t)
    else:
        for f, mpath, mct in members:
            yield from _field_locations(b, f.data_type, path + mpath, mct)


def _field_locations(b: Binder, dt, path, mct):
    if isinstance(dt, pydsdl.VariableLengthArrayType):
        yield (path + ("count",), "count", vcap(dt), dt)
    elif isinstance(dt, pydsdl.FixedLengthArrayType) and isinstance(dt.element_type, pydsdl.CompositeType):
        for i in range(dt.capacity):
            yield from shape_locations(b, dt.element_type, path + (str(i),))
    elif isinstance(dt, pydsdl.CompositeType):
        yield from shape_locations(b, dt, path)


def enumerate_shapes(b: Binder, t: pydsdl.CompositeType) -> typing.List[Shape]:
    """All shapes of an object of type t in serialization order: each count in 0..capacity or invalid, each tag in
    0..n-1 or invalid; after the first invalid location the rest is left unconstrained."""
    out: typing.List[Shape] = []

    def walk(todo: typing.List[typing.Any], shape: Shape) -> None:
        if not todo:
            out.append(Shape(shape))
            return
        (path, kind, limit, node), rest = todo[0], todo[1:]
        if kind == "tag":
            members = b.members(node)
            for k in range(limit):
                s = Shape(shape)
                s[path] = k
                f, mpath, mct = members[k]
                sub = list(_field_locations(b, f.data_type, path[:-1] + mpath, mct))
                walk(sub + rest, s)
            s = Shape(shape)
            s[path] = None
            s["__invalid__"] = path
            out.append(s)
        else:
            dt = node
            for k in range(limit + 1):
                s = Shape(shape)
                s[path] = k
                sub = []
                if isinstance(dt.element_type, pydsdl.CompositeType):
                    for i in range(k):
                        sub += list(shape_locations(b, dt.element_type, path[:-1] + ("elements", str(i))))
                walk(sub + rest, s)
            s = Shape(shape)
            s[path] = None
            s["__invalid__"] = path
            out.append(s)

    walk(list(shape_locations(b, t)), Shape())
    return out


# ------------------------------------------------------------------------------------------------------------------
# Dec
# ------------------------------------------------------------------------------------------------------------------


def _addo(off: typing.Any, n: typing.Any) -> typing.Any:
    if isinstance(off, int) and isinstance(n, int):
        return off + n
    return ec._fold(app("+", str(off), str(n)))


def _align(off: typing.Any, a: int) -> typing.Any:
    if a <= 1:
        return off
    if isinstance(off, int):
        return off + (-off) % a
    if a == 8:
        q, r = ec.divmod8(str(off))
        if r is not None:
            return off if r == 0 else ec._fold(app("+", str(off), str(8 - r)))
    return ec._fold(app("*", app("div", app("+", off, str(a - 1)), str(a)), str(a)))


class Decoded:
    """result of the specification decoder on one path"""

    def __init__(self) -> None:
        self.values: typing.List[typing.Tuple[Obj, CT, int, typing.Tuple[str, str]]] = []  # (leaf, leaf C type, element index, (kind, term))
        self.bits: typing.List[typing.Tuple[Obj, CT, int, str]] = []  # bit-packed booleans: (leaf, type, bit index, Bool term)
        self.error: typing.Optional[int] = None
        self.end: typing.Any = 0
        self.dtypes: typing.Dict[typing.Any, typing.Any] = {}  # (leaf path, element index) -> DSDL primitive type


class WireDecoder:
    """Dec_T(bytes, n): walks the type, reading through zero-extending reads of `mem` limited to `limit` bytes
    (absolute byte index in the buffer's region); branches (through ex.branch / small_split) exactly where the
    specification makes a case distinction: array length validity and value, union tag, delimiter header validity."""

    def __init__(self, ex: ec.Exec, binder: Binder, mem: Mem, zx: typing.Callable[[Mem, str, str, str, int], str]):
        self.ex, self.b, self.mem, self.zx = ex, binder, mem, zx

    def rd(self, limit: str, base: typing.Any, off: typing.Any, n: int, width: int) -> str:
        abs_off = str(_addo(base, off))
        return self.zx(self.mem, limit, abs_off, str(n), width)

    def decode(self, t: pydsdl.CompositeType, o: Obj, base_bit: typing.Any, limit: str) -> Decoded:
        d = Decoded()
        d.end = self._composite(t, o, base_bit, 0, limit, d)
        return d

    def _composite(self, t, o: Obj, base, off, limit: str, d: Decoded):
        inner = t.inner_type if isinstance(t, pydsdl.DelimitedType) else t
        members = self.b.members(t)
        if isinstance(inner, pydsdl.UnionType):
            tt = inner.tag_field_type
            w = 8 if tt.bit_length <= 8 else (16 if tt.bit_length <= 16 else 32)
            raw = self.rd(limit, base, off, tt.bit_length, w)
            off = _addo(off, tt.bit_length)
            tagv = self.ex.name_term(f"(bv2nat {raw})", "Int", "tag")
            if self.ex.branch(app(">=", tagv, str(len(members)))):
                d.error = ERR_BAD_UNION_TAG
                return off
            k = self.ex.small_split(tagv, max(1, len(members) - 1), known_range=True)
            if k is None:
                raise ec.COutOfSubset("union tag not enumerable")
            d.values.append((o.sub("_tag_"), CT("int", 8, False), 0, ("bits", bvlit(k, 8))))
            f, mpath, mct = members[k]
            off = _align(off, f.data_type.alignment_requirement)
            off = self._field(f.data_type, o.sub(*mpath), mct, base, off, limit, d)
            if d.error is not None:
                return off
        else:
            mi = iter(members)
            for f in inner.fields:
                off = _align(off, f.data_type.alignment_requirement)
                if isinstance(f, pydsdl.PaddingField):
                    off = _addo(off, f.data_type.bit_length)
                    continue
                ff, mpath, mct = next(mi)
                off = self._field(f.data_type, o.sub(*mpath), mct, base, off, limit, d)
                if d.error is not None:
                    return off
        return _align(off, 8)

    def _prim(self, dt: pydsdl.PrimitiveType, ct: CT, limit: str, base, off) -> typing.Tuple[str, str]:
        n = dt.bit_length
        el = ct.elem if ct.kind == "array" else ct
        if isinstance(dt, pydsdl.BooleanType):
            raw = self.rd(limit, base, off, 1, 8)
            return ("bits", raw)  # 0 or 1
        if isinstance(dt, pydsdl.UnsignedIntegerType):
            w = el.width
            return ("bits", self.rd(limit, base, off, n, w))
        if isinstance(dt, pydsdl.SignedIntegerType):
            w = el.width
            raw = self.rd(limit, base, off, n, w)
            amt = bvlit(w - n, w)
            return ("bits", raw if n == w else f"(bvashr (bvshl {raw} {amt}) {amt})")
        if isinstance(dt, pydsdl.FloatType):
            if n == 16:
                return ("f16", self.rd(limit, base, off, 16, 16))
            return ("bits", self.rd(limit, base, off, n, n))
        raise ec.COutOfSubset(f"primitive {dt}")

    def _field(self, dt, o: Obj, mct: CT, base, off, limit: str, d: Decoded):
        if isinstance(dt, pydsdl.PrimitiveType):
            d.values.append((o, mct, 0, self._prim(dt, mct, limit, base, off)))
            d.dtypes[(o.path, 0)] = dt
            return _addo(off, dt.bit_length)
        if isinstance(dt, pydsdl.ArrayType):
            return self._array(dt, o, mct, base, off, limit, d)
        if isinstance(dt, pydsdl.CompositeType):
            return self._nested(dt, o, base, off, limit, d)
        raise ec.COutOfSubset(f"field type {dt}")

    def _nested(self, dt, o: Obj, base, off, limit: str, d: Decoded):
        if isinstance(dt, pydsdl.DelimitedType):
            raw = self.rd(limit, base, off, 32, 32)
            off = _addo(off, 32)
            dh = self.ex.name_term(f"(bv2nat {raw})", "Int", "dh")
            pos_bytes = app("div", str(_addo(base, off)), "8")
            remaining = Ite(app(">=", limit, pos_bytes), app("-", limit, pos_bytes), "0")
            if self.ex.branch(app(">", dh, remaining)):
                d.error = ERR_BAD_DELIMITER
                return off
            sub_limit = self.ex.name_term(app("+", pos_bytes, dh), "Int", "sublimit")
            self._composite(dt, o, base, off, sub_limit, d)
            if d.error is not None:
                return off
            return ec._fold(app("+", str(off), app("*", "8", dh)))
        return self._composite(dt, o, base, off, limit, d)

    def _array(self, dt, o: Obj, mct: CT, base, off, limit: str, d: Decoded):
        et = dt.element_type
        if isinstance(dt, pydsdl.VariableLengthArrayType):
            lt = dt.length_field_type
            w = 8 if lt.bit_length <= 8 else (16 if lt.bit_length <= 16 else (32 if lt.bit_length <= 32 else 64))
            raw = self.rd(limit, base, off, lt.bit_length, w)
            off = _addo(off, lt.bit_length)
            cntv = self.ex.name_term(f"(bv2nat {raw})", "Int", "count")
            if self.ex.branch(app(">", cntv, str(vcap(dt)))):
                d.error = ERR_BAD_ARRAY_LENGTH
                return off
            n = self.ex.small_split(cntv, max(1, vcap(dt)), known_range=True)
            if n is None:
                raise ec.COutOfSubset("array length not enumerable")
            rec = self.b.types.records[mct.name]
            el_name, el_ct = rec["fields"][0]
            cnt_name, cnt_ct = rec["fields"][1]
            d.values.append((o.sub(cnt_name), cnt_ct, 0, ("int", str(n))))
            elems_o = o.sub(el_name)
        else:
            n = dt.capacity
            el_ct = mct
            elems_o = o
        off = _align(off, et.alignment_requirement)
        for i in range(n):
            off = _align(off, et.alignment_requirement)
            if isinstance(et, pydsdl.BooleanType):
                raw = self.rd(limit, base, off, 1, 8)
                d.bits.append((elems_o, el_ct, i, Eq(raw, "#x01")))
                off = _addo(off, 1)
            elif isinstance(et, pydsdl.PrimitiveType):
                d.values.append((elems_o, el_ct, i, self._prim(et, el_ct, limit, base, off)))
                d.dtypes[(elems_o.path, i)] = et
                off = _addo(off, et.bit_length)
            elif isinstance(et, pydsdl.CompositeType):
                off = self._nested(et, elems_o.sub(str(i)), base, off, limit, d)
                if d.error is not None:
                    return off
            else:
                raise ec.COutOfSubset(f"array element {et}")
        return off

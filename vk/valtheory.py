"""
Nested configuration values as an SMT datatype (value semantics):

  Atom = abool Bool | aint Int | astr String | anone | aother Int
  Val  = absent | leaf Atom | dflt Atom | mapv (Array String Val)

`absent` is "no entry for this key"; `dflt a` is a DefaultValue(a); `mapv` a dict (any Mapping).
M(t, s) is the merge specification (statement level): see PRELUDE.
"""
from __future__ import annotations

import ast
import typing

from .epy import (FALSE, NONE, TRUE, Interp, OutOfSubset, PyRaise, V, VBool, VConst, VData, VInt, VNone, VObj, VOpt,
                  VStr, VTuple)
from .smt import And, Eq, Implies, Ite, Lazy, Not, Or, app

PRELUDE = [
    "(declare-datatypes ((Atom 0)) (((abool (ab Bool)) (aint (ai Int)) (astr (ast String)) (anone) (aother (ao Int)))))",
    "(declare-datatypes ((Val 0)) (((absent) (leaf (lv Atom)) (dflt (dv Atom)) (mapv (mv (Array String Val))))))",
    "(define-fun emptymap () Val (mapv ((as const (Array String Val)) absent)))",
    "(define-fun present ((v Val)) Bool (not ((_ is absent) v)))",
    # merge specification: M(t, s) for a map s, with its one-level unfolding; a non-map target is replaced by (a copy
    # of) the source
    Lazy("M",
         "(declare-fun M (Val Val) Val)",
         "(assert (forall ((t Val) (s Val)) (! (=> ((_ is mapv) s) (ite ((_ is mapv) t)"
         " (and ((_ is mapv) (M t s)) (forall ((k String)) (! (= (select (mv (M t s)) k)"
         "  (let ((sv (select (mv s) k)) (tv (select (mv t) k)))"
         "   (ite ((_ is absent) sv) tv"
         "   (ite ((_ is mapv) sv) (M (ite ((_ is absent) tv) emptymap tv) sv)"
         "   (ite (and ((_ is dflt) sv) (present tv) (not ((_ is dflt) tv))) tv sv)))))"
         "  :pattern ((select (mv (M t s)) k)))))"
         " (= (M t s) s))) :pattern ((M t s)))))"),
    # Mk: value at key k after merging map s into map t (the property statement, pointwise):
    #   key not mentioned by s             -> keeps t's value
    #   s[k] is a map                      -> merge of (t[k] if present else {}) with s[k]
    #   s[k] default-marked, t[k] explicit -> t[k] stays
    #   otherwise                          -> s[k]
    Lazy("Mk",
         "(define-fun Mk ((t Val) (s Val) (k String)) Val"
         " (let ((sv (select (mv s) k)) (tv (select (mv t) k)))"
         "  (ite ((_ is absent) sv) tv"
         "  (ite ((_ is mapv) sv) (M (ite ((_ is absent) tv) emptymap tv) sv)"
         "  (ite (and ((_ is dflt) sv) (present tv) (not ((_ is dflt) tv))) tv sv)))))"),
    # dict.update: overlay(a, b)[k] = b[k] if present else a[k]
    Lazy("overlay",
         "(declare-fun overlay (Val Val) Val)",
         "(assert (forall ((a Val) (b Val)) (! (and ((_ is mapv) (overlay a b)) (forall ((k String)) (! (= (select (mv (overlay a b)) k)"
         " (ite (present (select (mv b) k)) (select (mv b) k) (select (mv a) k))) :pattern ((select (mv (overlay a b)) k))))) :pattern ((overlay a b)))))"),
    # Python truthiness of a config value (maps/other atoms: unspecified)
    Lazy("vtruthy",
         "(declare-fun vtruthy_other (Val) Bool)",
         "(define-fun vtruthy ((v Val)) Bool (ite ((_ is leaf) v) (ite ((_ is abool) (lv v)) (ab (lv v)) (ite ((_ is astr) (lv v)) (not (= (ast (lv v)) \"\"))"
         " (ite ((_ is aint) (lv v)) (not (= (ai (lv v)) 0)) (ite ((_ is anone) (lv v)) false (vtruthy_other v))))) (vtruthy_other v)))"),
    # rank for termination of the recursion: documents are finite and acyclic (assumed)
    Lazy("depth",
         "(declare-fun depth (Val) Int)",
         "(assert (forall ((m Val) (k String)) (! (=> (and ((_ is mapv) m) (present (select (mv m) k)))"
         " (and (<= 0 (depth (select (mv m) k))) (< (depth (select (mv m) k)) (depth m)))) :pattern ((select (mv m) k)))))"),
]


def val(t: str) -> VData:
    return VData("Val", t)


def to_val(it: Interp, v: V) -> VData:
    """Coerce a Python value stored into a config map to Val."""
    if isinstance(v, VData) and v.kind == "Val":
        return v
    if isinstance(v, VBool):
        return val(f"(leaf (abool {v.t}))")
    if isinstance(v, VInt):
        return val(f"(leaf (aint {v.t}))")
    if isinstance(v, VStr):
        return val(f"(leaf (astr {v.t}))")
    if isinstance(v, VNone):
        return val("(leaf anone)")
    if isinstance(v, VOpt):
        inner = to_val(it, v.val)
        return val(Ite(v.isnone, "(leaf anone)", inner.t))
    raise OutOfSubset(f"value of sort {v.sort} stored in a configuration map")


def key_term(k: V) -> str:
    if isinstance(k, VStr):
        return k.t
    if isinstance(k, VData) and k.kind == "Val":
        # an option value used as a key: assumed to be a string (recorded by install())
        return f"(ast (lv {k.t}))"
    raise OutOfSubset(f"configuration key of sort {k.sort}")


class ItemsProto:
    """for key, value in <map>.items(): executed for an ARBITRARY key not processed yet (order independence).
    Ghost `processed` (Array String Bool) lives in ctx.ghost['processed']."""

    def __init__(self, it: Interp, m: VData):
        self.it, self.m = it, m

    def init(self) -> None:
        self.it.ctx.ghost["processed"] = VData("(Array String Bool)", "((as const (Array String Bool)) false)")

    def havoc(self) -> None:
        pass  # ghost variables are havoced by the loop rule

    def has_next(self) -> VBool:
        ctx = self.it.ctx
        more = ctx.fresh("Bool", "items.has_next")
        proc = ctx.ghost["processed"].t
        k = ctx.fresh("String", "key", model=True)
        self.k = k
        ctx.assume(Implies(more, And(f"(present (select (mv {self.m.t}) {k}))", Not(f"(select {proc} {k})"))))
        ctx.assume(Implies(Not(more), f"(forall ((q String)) (! (=> (present (select (mv {self.m.t}) q)) (select {proc} q)) :pattern ((select (mv {self.m.t}) q))))"))
        return VBool(more)

    def next(self) -> V:
        ctx = self.it.ctx
        proc = ctx.ghost["processed"].t
        ctx.ghost["processed"] = VData("(Array String Bool)", f"(store {proc} {self.k} true)")
        return VTuple([VStr(self.k), val(f"(select (mv {self.m.t}) {self.k})")])

    def done(self) -> None:
        pass


def install(e) -> None:
    I = e.intrinsics
    e.used("configuration documents are finite, acyclic nested maps with string keys (value semantics; aliasing is "
           "handled by the separate freshness obligations)")

    # isinstance
    e.isinstance_hooks["Val:Mapping"] = lambda it, v: VBool(f"((_ is mapv) {v.t})")
    e.isinstance_hooks["Val:MutableMapping"] = e.isinstance_hooks["Val:Mapping"]
    e.isinstance_hooks["Val:dict"] = e.isinstance_hooks["Val:Mapping"]
    e.isinstance_hooks["Val:DefaultValue"] = lambda it, v: VBool(f"((_ is dflt) {v.t})")
    e.isinstance_hooks["Val:str"] = lambda it, v: VBool(f"(and ((_ is leaf) {v.t}) ((_ is astr) (lv {v.t})))")
    e.isinstance_hooks["Val:list"] = lambda it, v: FALSE  # lists are opaque atoms in this model

    # m[k]  (KeyError when absent; TypeError when m is not a map)
    def sub(it: Interp, m: VData, k: V) -> V:
        if it.ctx.branch(VBool(f"((_ is mapv) {m.t})"), "subscript-of-map"):
            r = f"(select (mv {m.t}) {key_term(k)})"
            if it.ctx.branch(VBool(f"((_ is absent) {r})"), "key-absent"):
                raise PyRaise("KeyError")
            return it.named(val(r), "item")
        raise PyRaise("TypeError")

    e.subscript_hooks["Val"] = sub

    # m[k] = v  (value semantics: returns the new map, the interpreter rebinds the variable)
    def store(it: Interp, m: VData, k: V, v: V) -> V:
        if not it.ctx.branch(VBool(f"((_ is mapv) {m.t})"), "store-into-map"):
            raise PyRaise("TypeError")
        return it.named(val(f"(mapv (store (mv {m.t}) {key_term(k)} {to_val(it, v).t}))"), "map")

    e.store_subscript_hooks["Val"] = store

    def get(it: Interp, m: VData, k: V, default: V = NONE) -> V:
        if not it.ctx.branch(VBool(f"((_ is mapv) {m.t})"), "get-on-map"):
            raise PyRaise("AttributeError")
        r = f"(select (mv {m.t}) {key_term(k)})"
        d = to_val(it, default)
        return it.named(val(Ite(f"((_ is absent) {r})", d.t, r)), "got")

    I["Val.get"] = get

    def update(it: Interp, m: VData, other: V) -> V:
        """dict.update(other): in place; value semantics -> the interpreter rebinds the receiver"""
        if not it.ctx.branch(VBool(f"((_ is mapv) {m.t})"), "update-on-map"):
            raise PyRaise("AttributeError")
        o = to_val(it, other)
        if not it.ctx.branch(VBool(f"((_ is mapv) {o.t})"), "update-from-map"):
            raise PyRaise("TypeError")
        return it.named(val(f"(overlay {m.t} {o.t})"), "map")

    e.mutators["Val.update"] = update

    def items(it: Interp, m: VData) -> V:
        if not it.ctx.branch(VBool(f"((_ is mapv) {m.t})"), "items-on-map"):
            raise PyRaise("AttributeError")
        return VData("ValItems", m.t)

    I["Val.items"] = items
    I["for:ValItems"] = lambda it, v: ItemsProto(it, val(v.t))
    I["in:Val"] = lambda it, m, k: VBool(f"(present (select (mv {m.t}) {key_term(k)}))")

    def dict_literal(it: Interp, keys: typing.List[V], vals: typing.List[V]) -> V:
        t = "((as const (Array String Val)) absent)"
        for k, v in zip(keys, vals):
            t = f"(store {t} {key_term(k)} {to_val(it, v).t})"
        return val(f"(mapv {t})")

    I["dict-literal"] = dict_literal

    # DefaultValue(x)
    def default_value(it: Interp, v: V) -> V:
        tv = to_val(it, v)
        return val(f"(dflt (lv {tv.t}))")

    I["DefaultValue.__new__"] = default_value
    # result.value on a DefaultValue
    e.attr_hooks["Val.value"] = lambda it, v: val(f"(leaf (dv {v.t}))")

    def copy_copy(it: Interp, v: V) -> V:
        it.e.used("copy.copy(x): a value equal to x (value semantics; shallow sharing is the freshness obligation's business)")
        return v

    e.std_bindings["copy"] = VConst({"copy": VConst(copy_copy), "deepcopy": VConst(copy_copy)})
    e.std_bindings["collections"] = VConst({"abc": VConst({"Mapping": VConst(("class", "Mapping", {})),
                                                          "MutableMapping": VConst(("class", "MutableMapping", {}))})})
    e.std_bindings["dict"] = VConst(("class", "dict", {}))
    e.std_bindings["list"] = VConst(("class", "list", {}))
    def py_eq(it: Interp, a: VData, b: VData) -> VBool:
        """Python `==` on configuration values: DefaultValue.__eq__ compares the wrapped value with the other side
        (wrapped or not); dicts compare entry-wise with the same overloaded `==` (structural equality implies it;
        otherwise unspecified here)."""
        it.e.used("== on configuration values follows DefaultValue.__eq__ (default marker ignored); for two maps that are not "
                  "structurally equal the result is left unspecified")
        atom = lambda v: f"(ite ((_ is leaf) {v}) (lv {v}) (dv {v}))"  # noqa: E731
        is_atom = lambda v: f"(or ((_ is leaf) {v}) ((_ is dflt) {v}))"  # noqa: E731
        unk = it.ctx.fresh("Bool", "map_eq")
        return VBool(f"(ite (and {is_atom(a.t)} {is_atom(b.t)}) (= {atom(a.t)} {atom(b.t)}) (ite (= {a.t} {b.t}) true (ite (and ((_ is mapv) {a.t}) ((_ is mapv) {b.t})) {unk} false)))")

    e.eq_hooks["Val.eq"] = py_eq
    e.truthy_hooks["Val"] = lambda ctx, v: VBool(f"(vtruthy {v.t})")
    e.eq_hooks["Val.is"] = lambda it, a, b: VBool(Eq(a.t, b.t))
    e.eq_hooks["Val.isnone"] = lambda it, v: VBool(Eq(v.t, "(leaf anone)"))

    # spec vocabulary ---------------------------------------------------------------------------
    S = e.spec_fns

    def fn1(tmpl: str, sort: str = "Bool"):
        def f(it: Interp, n: ast.Call) -> V:
            args = [it.eval(a) for a in n.args]
            ts = [to_val(it, a).t if not isinstance(a, (VStr,)) else a.t for a in args]
            t = tmpl.format(*ts)
            return VBool(t) if sort == "Bool" else (val(t) if sort == "Val" else VInt(t))
        return f

    S["is_map"] = fn1("((_ is mapv) {0})")
    S["is_dflt"] = fn1("((_ is dflt) {0})")
    S["is_leaf"] = fn1("((_ is leaf) {0})")
    S["present"] = fn1("(present {0})")
    S["M"] = fn1("(M {0} {1})", "Val")
    S["at"] = fn1("(select (mv {0}) {1})", "Val")
    S["put"] = fn1("(mapv (store (mv {0}) {1} {2}))", "Val")
    S["Mk"] = fn1("(Mk {0} {1} {2})", "Val")
    S["depth"] = fn1("(depth {0})", "Int")
    S["or_empty"] = fn1("(ite ((_ is absent) {0}) emptymap {0})", "Val")
    S["undefault"] = fn1("(ite ((_ is dflt) {0}) (leaf (dv {0})) {0})", "Val")
    S["overlay"] = fn1("(overlay {0} {1})", "Val")
    S["truthy"] = fn1("(vtruthy {0})")
    S["is_str"] = fn1("(and ((_ is leaf) {0}) ((_ is astr) (lv {0})))")
    S["skey"] = lambda it, n: VStr(f"(ast (lv {it.eval(n.args[0]).t}))")
    S["EMPTY"] = lambda it, n: val("emptymap")
    S["ABSENT"] = lambda it, n: val("absent")
    S["processed"] = lambda it, n: VBool(f"(select {it.ctx.ghost['processed'].t} {it.eval(n.args[0]).t})")
